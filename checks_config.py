"""Which tests decide which property, and how many cases per tier.

quick/thorough = number of rapid cases in total (split over shards)."""

CHECKS = {
    "C17": {
        "subs": [
            {"pkg": "pure", "test": "TestC17LWW", "quick": 20000, "thorough": 1000000, "shards_quick": 8, "shards_thorough": 16},
        ],
        "engine": "PURE",
        "level_text": "Stateful property-based test: generated upsert/delete/compact/leave sequences on the real gossip state object are compared step by step with a reference last-write-wins map (visible keys, tombstones, version freshness, no-op detection, compaction effects). Exploration only: shows the property for the generated sequences.",
        "technique": "model-based stateful PBT (rapid) vs reference map",
        "assumptions": ["keys outside the reserved _internal: prefix", "CompactLocal threshold >= 1 (the only caller passes 100)"],
    },
}

NOT_APPLICABLE = {}
