"""Which tests decide which property, and how many cases per tier.

quick/thorough = number of rapid cases in total (split over shards)."""

CHECKS = {
    "C17": {
        "subs": [
            {"pkg": "pure", "test": "TestRegressD2", "quick": 1, "thorough": 1, "shards": 1},
        {"pkg": "pure", "test": "TestC17LWW", "quick": 20000, "thorough": 1000000, "shards_quick": 8, "shards_thorough": 16},
        {"pkg": "sim", "test": "TestC17Observer", "quick": 1500, "thorough": 60000, "shards_quick": 4, "shards_thorough": 8},
        {"pkg": "sim", "test": "TestC17Stream", "quick": 800, "thorough": 30000, "shards_quick": 4, "shards_thorough": 8},
        {"pkg": "sim", "test": "TestC17AfterLeave", "quick": 600, "thorough": 30000, "shards_quick": 4, "shards_thorough": 8},
        ],
        "engine": "PURE+SIM",
        "level_text": "Stateful property-based test: generated upsert/delete/compact/leave sequences on the real gossip state object are compared step by step with a reference last-write-wins map (visible keys, tombstones, version freshness, no-op detection, compaction effects). Exploration only: shows the property for the generated sequences.",
        "technique": "model-based stateful PBT (rapid) vs reference map",
        "assumptions": ["keys outside the reserved _internal: prefix", "CompactLocal threshold >= 1 (the only caller passes 100)"],
    },
}

CHECKS["C15"] = {
    "subs": [
        {"pkg": "pure", "test": "TestC15Select", "quick": 20000, "thorough": 800000, "shards_quick": 6, "shards_thorough": 12},
        {"pkg": "pure", "test": "TestC15Balancer", "quick": 10000, "thorough": 400000, "shards_quick": 4, "shards_thorough": 8},
        {"pkg": "pure", "test": "TestC15Churn", "quick": 10000, "thorough": 400000, "shards_quick": 4, "shards_thorough": 8},
        {"pkg": "pure", "test": "TestC15Concurrent", "quick": 3000, "thorough": 100000, "shards_quick": 4, "shards_thorough": 8},
        {"pkg": "pure", "test": "TestC15Window", "quick": 400, "thorough": 20000, "shards_quick": 4, "shards_thorough": 16},
    ],
    "engine": "PURE",
    "level_text": "Stateful property-based tests on the real LoadBalancedManager and its round-robin helper against an ordered-membership model: every selection is a currently registered upstream of exactly that endpoint, non-forwardable requests never get a remote node, every window of n selections over a stable set is a permutation, and a concurrent variant checks selections against registration intervals on a logical clock. Exploration only.",
    "technique": "model-based stateful PBT (rapid), window-permutation oracle, interval-overlap oracle for concurrent runs; schedule-owning overlap of two operations at call-outs with a sequential-order (linearizability) oracle",
    "assumptions": ["each upstream object is registered at most once (as the upstream handler does)"],
}
CHECKS["C12"] = {
    "subs": [
        {"pkg": "pure", "test": "TestC12Phi", "quick": 20000, "thorough": 1500000, "shards_quick": 8, "shards_thorough": 16},
        {"pkg": "pure", "test": "TestC12PrefixIndependence", "quick": 5000, "thorough": 300000, "shards_quick": 4, "shards_thorough": 8},
        {"pkg": "sim", "test": "TestC12Async", "quick": 24, "thorough": 800, "shards_quick": 4, "shards_thorough": 16},
        {"pkg": "sim", "test": "TestC12Return", "quick": 200, "thorough": 6000, "shards_quick": 4, "shards_thorough": 12},
    ],
    "engine": "PURE+SIMA+SIM",
    "level_text": "Property-based test of the arrival window and the detector map against an exact rational reference (math/big) over generated arrival sequences up to 5x the window length, plus direct accuracy/completeness bounds and a metamorphic prefix-independence relation; the detector inside the real gossip instance (real schedulers in virtual time: steady peers never suspected, a silent one within 45 virtual seconds) and across incarnations of a node id. Exploration only.",
    "technique": "differential PBT against an exact-arithmetic reference + metamorphic relation (rapid); stateful PBT over real gossip instances in a virtual-time bubble",
    "assumptions": ["arrival timestamps strictly increase (wall clock in production)", "float comparison tolerance 1e-9 relative"],
}

SIM_NOTE = "the in-memory network and the synchronous scheduling of handler calls are the harness's model of UDP and of the node's goroutines; join/leave stream clients mirror Gossip.join/leave (the real ones run in TestC02Stream/TestC17Stream on loopback sockets, the real UDP receive loop in TestC13Receive); known finding F3 (stale delta after an expiry) is excluded by dropping the packet"
CHECKS["C02"] = {
    "subs": [{"pkg": "sim", "test": "TestKnownF3", "quick": 1, "thorough": 1, "shards": 1},
             {"pkg": "sim", "test": "TestC02Relay", "quick": 8000, "thorough": 80000, "shards_quick": 4, "shards_thorough": 8},
             {"pkg": "sim", "test": "TestC02Stream", "quick": 1200, "thorough": 40000, "shards_quick": 4, "shards_thorough": 16},
             {"pkg": "sim", "test": "TestC02", "quick": 8000, "thorough": 200000, "shards_quick": 8, "shards_thorough": 16, "timeout_thorough": 7200}],
    "engine": "SIM",
    "level_text": "Deterministic-simulation property test: generated histories over 2-4 real gossip nodes and a generated network (loss, duplication, reordering, partitions, truncating packet limits); after every step each observer's view is checked against the owner's recorded write history. Exploration only.",
    "technique": "stateful PBT (rapid) over a simulated network in a synctest bubble; oracle = recorded owner write history",
    "level_note": SIM_NOTE,
}
CHECKS["C14"] = {
    "subs": [{"pkg": "sim", "test": "TestC14", "quick": 8000, "thorough": 200000, "shards_quick": 8, "shards_thorough": 16, "timeout_thorough": 7200}],
    "engine": "SIM",
    "level_text": "Same simulated histories; the oracle folds every watcher notification in order and compares the fold with the node's visible view after every step. Exploration only.",
    "technique": "stateful PBT (rapid), oracle = fold of recorded notifications vs visible state",
    "level_note": SIM_NOTE,
}
CHECKS["C03"] = {
    "subs": [{"pkg": "sim", "test": "TestC03Async", "quick": 40, "thorough": 1500, "shards_quick": 4, "shards_thorough": 16},
             {"pkg": "sim", "test": "TestC03", "quick": 4000, "thorough": 80000, "shards_quick": 8, "shards_thorough": 16, "timeout_thorough": 7200}],
    "engine": "SIM",
    "level_text": "Generated divergent start states followed by a fair closure of real push-pull exchanges; convergence to structural equality is required within a bound and without idle streaks. Liveness is decided against explicit round bounds. Exploration only.",
    "technique": "stateful PBT (rapid) + bounded fair closure, oracle = structural equality with the owner's state",
    "level_note": SIM_NOTE + "; 'eventually delivers' is modelled by the closure's fair schedule",
}
CHECKS["C04"] = {
    "subs": [{"pkg": "sim", "test": "TestC04", "quick": 6000, "thorough": 150000, "shards_quick": 8, "shards_thorough": 16, "timeout_thorough": 7200},
             {"pkg": "sim", "test": "TestC04Window", "quick": 800, "thorough": 20000, "shards_quick": 4, "shards_thorough": 16, "timeout_quick": 600, "timeout_thorough": 3600}],
    "engine": "SIM",
    "level_text": "Simulated histories composing the real gossip state, syncer, cluster state and upstream manager; whenever an observer has caught up with an owner its routing table must mirror the owner's advertisement exactly, and every lookup must return an active, advertising remote node. Exploration only.",
    "technique": "stateful PBT (rapid), oracle = owner's own cluster state at equal versions; schedule-owning overlap of two operations with a sequential-order (linearizability) oracle",
    "level_note": SIM_NOTE,
}
CHECKS["C11"] = {
    "subs": [{"pkg": "sim", "test": "TestKnownF2", "quick": 1, "thorough": 1, "shards": 1},
             {"pkg": "sim", "test": "TestC11Async", "quick": 24, "thorough": 800, "shards_quick": 4, "shards_thorough": 16},
             {"pkg": "sim", "test": "TestC11", "quick": 6000, "thorough": 150000, "shards_quick": 8, "shards_thorough": 16, "timeout_thorough": 7200},
             {"pkg": "sim", "test": "TestC11Return", "quick": 300, "thorough": 12000, "shards_quick": 4, "shards_thorough": 12}],
    "engine": "SIM",
    "level_text": "Simulated membership histories on a virtual clock with boundary-directed time steps; invariants I1-I6 are checked after every atomic action. Known finding F2 is recognised by its structural signature. Exploration only.",
    "technique": "stateful PBT (rapid) on a virtual clock, invariant oracle over the membership history",
    "level_note": SIM_NOTE + "; crashed nodes never restart in the generated histories",
}

CHECKS["C05"] = {
    "subs": [
        {"pkg": "sim", "test": "TestRegressD1", "quick": 1, "thorough": 1, "shards": 1},
        {"pkg": "sim", "test": "TestC05Seq", "quick": 10000, "thorough": 400000, "shards_quick": 4, "shards_thorough": 8},
        {"pkg": "sim", "test": "TestC05Concurrent", "quick": 8000, "thorough": 60000, "shards_quick": 4, "shards_thorough": 8},
        {"pkg": "sim", "test": "TestC05Sim", "quick": 2000, "thorough": 60000, "shards_quick": 4, "shards_thorough": 8},
    ],
    "engine": "SIM",
    "level_text": "Model-based property tests on the real manager + cluster state + syncer + gossip state of one node (sequential with repeated/late removals; concurrent goroutine programs checked at quiescence) and inside simulated cluster histories: the advertised count per endpoint must equal the multiset of registered upstream objects. Exploration only; concurrent interleavings are sampled.",
    "technique": "model-based stateful PBT (rapid) + generated concurrent programs with a quiescence oracle",
    "level_note": "each upstream object is registered at most once and removed only after it was registered (as the upstream handler and the proxy do)",
}
CHECKS["C13"] = {
    "subs": [
        {"pkg": "pure", "test": "TestRegressD5", "quick": 1, "thorough": 1, "shards": 1},
        {"pkg": "pure", "test": "TestC13Delta", "quick": 600, "thorough": 40000, "shards_quick": 6, "shards_thorough": 12},
        {"pkg": "pure", "test": "TestC13Digest", "quick": 600, "thorough": 40000, "shards_quick": 3, "shards_thorough": 8},
        {"pkg": "pure", "test": "TestC13GossipSender", "quick": 100, "thorough": 3000, "shards_quick": 3, "shards_thorough": 8},
        {"pkg": "pure", "test": "TestC13Relay", "quick": 3000, "thorough": 300000, "shards_quick": 3, "shards_thorough": 8},
        {"pkg": "pure", "test": "TestC13Receive", "quick": 1500, "thorough": 100000, "shards_quick": 3, "shards_thorough": 8},
        {"pkg": "pure", "test": "TestC13Hostile", "quick": 40000, "thorough": 1500000, "shards_quick": 6, "shards_thorough": 16},
        {"pkg": "fuzz", "fuzz": "FuzzHandlePacket", "quick": 1, "thorough": 1, "fuzztime_thorough": 150, "workers": 16},
        {"pkg": "fuzz", "fuzz": "FuzzHandleStream", "quick": 1, "thorough": 1, "fuzztime_thorough": 150, "workers": 16},
        {"pkg": "fuzz", "fuzz": "FuzzDeltaRoundTrip", "quick": 1, "thorough": 1, "fuzztime_thorough": 90, "workers": 16},
        {"pkg": "sim", "test": "TestC13Sim", "quick": 2000, "thorough": 80000, "shards_quick": 4, "shards_thorough": 8},
    ],
    "engine": "PURE+SIM",
    "level_text": "Property-based tests of the real encoders at every maximum packet size (oracle: longest whole-item prefix, boundaries computed by encoding each item separately, cross-checked with the real decoder), of every packet emitted inside simulated histories (intended delta recomputed by the harness), and of the packet/stream handlers under structured hostile mutations and forged self-referring deltas (oracle: no panic, returns, own state untouched). Exploration only.",
    "technique": "PBT (rapid) with exhaustive size sweep per case; encoder/decoder cross-check; structure-aware mutation fuzzing of handlers with a state-invariance oracle",
    "level_note": "the msgpack codec library is trusted for item sizes; hostile inputs are mutations of valid messages plus raw prefixed bytes (native coverage-guided fuzzing is run in the thorough tier)",
}

SYS_NOTE = "real goroutine scheduling and real sockets: interleavings are sampled; liveness ('settles', 'reconnects') is decided against deadlines of 20 s (x3 on a miss) where measured latencies are 5-500 ms"
CHECKS["C01"] = {
    "subs": [{"pkg": "sys", "test": "TestC01", "quick": 120, "thorough": 6000, "shards_quick": 8, "shards_thorough": 12, "shrinktime": "10s", "timeout_quick": 900, "timeout_thorough": 7200},
             {"pkg": "sim", "test": "TestC01Sim", "quick": 3000, "thorough": 100000, "shards_quick": 4, "shards_thorough": 8}],
    "engine": "SYS+SIM",
    "level_text": "Generated scenarios against in-process clusters of real servers with self-stamping upstreams (Go SDK and agent, HTTP and TCP): every response must come from an upstream of exactly the addressed endpoint or be a gateway error, and after settling every node must serve exactly the endpoints that have an upstream somewhere. Exploration only.",
    "technique": "scenario-level PBT (rapid) on real in-process servers; oracle = stamps written by the upstreams + model placement",
    "level_note": SYS_NOTE,
}

CHECKS["C06"] = {
    "subs": [{"pkg": "sys", "test": "TestRegressD7", "quick": 1, "thorough": 1, "shards": 1},
             {"pkg": "sys", "test": "TestC06", "quick": 160, "thorough": 20000, "shards_quick": 8, "shards_thorough": 12, "shrinktime": "10s", "timeout_quick": 900, "timeout_thorough": 7200}],
    "engine": "SYS",
    "level_text": "Generated combinations of hand-written (possibly false, cyclic, stale) routing views on real un-joined nodes with counting relays between nodes; per request the number of inter-node hops and the outcome are checked against the views and the real upstream placement. Exploration only.",
    "technique": "configuration-level PBT (rapid) on real servers; oracle = hop counters in harness relays + upstream stamps",
    "level_note": SYS_NOTE,
}

CHECKS["C18"] = {
    "subs": [{"pkg": "sys", "test": "TestRegressD4", "quick": 1, "thorough": 1, "shards": 1},
             {"pkg": "sys", "test": "TestC18", "quick": 64, "thorough": 4000, "shards_quick": 8, "shards_thorough": 12, "shrinktime": "10s", "timeout_quick": 1200, "timeout_thorough": 7200}],
    "engine": "SYS",
    "level_text": "Generated node-loss scenarios (which node, graceful or kill, idle / attached / in-flight, grace period) on real clusters with upstream listeners behind a load balancer; the graceful path is checked for termination, withdrawal and synchronous leave notification, both paths for listener reconnection and recovery of service from every survivor. Exploration only; liveness against deadlines.",
    "technique": "fault-scenario PBT (rapid) on real in-process servers; oracle = stamps, routing tables and shutdown timing",
    "level_note": SYS_NOTE + "; a kill is emulated in-process by closing gossip sockets, listeners and sessions without leave",
}

CHECKS["C16"] = {
    "subs": [{"pkg": "sys", "test": "TestC16", "quick": 48, "thorough": 2500, "shards_quick": 8, "shards_thorough": 12, "shrinktime": "10s", "timeout_quick": 1200, "timeout_thorough": 7200}],
    "engine": "SYS",
    "level_text": "Generated connection-ending scenarios (every ending mode, order, siblings, in-flight requests, token expiry with the option on/off) on real servers; at each quiescent point the status API registry, the cluster state and the open-session count must equal the model of open connections, and expiry must fall in [exp, exp+deadline]. Exploration only.",
    "technique": "fault-scenario PBT (rapid) on real servers; oracle = model of open connections vs registry/cluster/sessions, wall-clock window for expiry",
    "level_note": SYS_NOTE + "; the upstream after go-away may be registered or not until it disconnects (the proxy removes it on ErrGone)",
}

CHECKS["C08"] = {
    "subs": [
        {"pkg": "sys", "test": "TestRegressD3", "quick": 1, "thorough": 1, "shards": 1},
        {"pkg": "sys", "test": "TestRegressD6", "quick": 1, "thorough": 1, "shards": 1},
        {"pkg": "sys", "test": "TestRegressD8", "quick": 1, "thorough": 1, "shards": 1},
        {"pkg": "sys", "test": "TestRegressD9", "quick": 1, "thorough": 1, "shards": 1},
        {"pkg": "sys", "test": "TestC08Transparency", "quick": 120, "thorough": 15000, "shards_quick": 8, "shards_thorough": 12, "shrinktime": "10s", "timeout_quick": 900, "timeout_thorough": 7200},
        {"pkg": "sys", "test": "TestC08Failures", "quick": 80, "thorough": 8000, "shards_quick": 8, "shards_thorough": 12, "shrinktime": "10s", "timeout_quick": 900, "timeout_thorough": 7200},
    ],
    "engine": "SYS",
    "level_text": "Grammar-generated requests and response shapes through real clusters (local and forwarded, SDK and agent upstreams) compared field by field with what the upstream recorded and what the client received; a generated failure matrix checks the 400/502/504 mapping, the timeout window and that upgrades survive the timeout. Exploration only.",
    "technique": "grammar-based PBT (rapid) with a record-and-compare (round-trip) oracle on real servers",
    "level_note": SYS_NOTE + "; request targets are generated percent-encoded without dot segments; hop-by-hop and X-Forwarded-For additions are not differences",
}

CHECKS["C09"] = {
    "subs": [{"pkg": "fuzz", "fuzz": "FuzzAuthHeader", "quick": 1, "thorough": 1, "fuzztime_thorough": 180, "workers": 16},
             {"pkg": "sys", "test": "TestC09", "quick": 240, "thorough": 12000, "shards_quick": 8, "shards_thorough": 12, "shrinktime": "10s", "timeout_quick": 900, "timeout_thorough": 7200}],
    "engine": "SYS",
    "level_text": "Generated (route, credential) pairs on real protected ports: the route table of each port is enumerated from the running gin engine, key configurations and token defects are drawn, validity is known by construction; every invalid pair must be answered 401 without reaching the upstream, the registry or a peer. Exploration only.",
    "technique": "PBT (rapid) over enumerated routes x constructed tokens; oracle = validity by construction + observation points behind the routes",
    "level_note": "valid tokens that are refused (over-rejection) are counted, not claimed either way; JWKS kid/alg pinning follows the measured behaviour of the key function library",
}

CHECKS["C10"] = {
    "subs": [
        {"pkg": "sys", "test": "TestC10Endpoints", "quick": 96, "thorough": 15000, "shards_quick": 8, "shards_thorough": 12, "shrinktime": "10s", "timeout_quick": 900, "timeout_thorough": 7200},
        {"pkg": "sys", "test": "TestC10Tenants", "quick": 128, "thorough": 20000, "shards_quick": 8, "shards_thorough": 12, "shrinktime": "10s", "timeout_quick": 900, "timeout_thorough": 7200},
    ],
    "engine": "SYS",
    "level_text": "Generated endpoint-claim sets, addressing modes (Host label, header, conflicting, TCP path, listen path, local and forwarded) and tenant tables against real protected ports with stamping upstreams of near-miss endpoint names; acceptance must equal membership of the routed endpoint in the claim list in both directions, and the serving upstream must be of the checked endpoint; tenant pairings are checked exhaustively per drawn table. Exploration only.",
    "technique": "PBT (rapid) on real servers; oracle = claim-membership model + upstream stamps (checked == routed)",
    "level_note": SYS_NOTE,
}

CHECKS["C07"] = {
    "subs": [
        {"pkg": "sys", "test": "TestC07Adapter", "quick": 600, "thorough": 60000, "shards_quick": 8, "shards_thorough": 16, "shrinktime": "10s", "timeout_quick": 900, "timeout_thorough": 7200},
        {"pkg": "sys", "test": "TestC07Tunnel", "quick": 96, "thorough": 8000, "shards_quick": 8, "shards_thorough": 12, "shrinktime": "10s", "timeout_quick": 900, "timeout_thorough": 7200},
    ],
    "engine": "SYS",
    "level_text": "Generated chunking schedules (write sizes at WebSocket length-encoding and yamux window edges, read-buffer cycles, fragmented and empty messages, both directions concurrently) over the WebSocket adapter and over complete tunnels (dialer / forwarder, one or two nodes, SDK listener / agent TCP proxy); the received stream must equal the written position-dependent pattern and a close at either end must be observed at the other and release the server's streams. Exploration only.",
    "technique": "PBT (rapid) with a round-trip (echo) oracle on a position-dependent byte pattern; close-propagation observed at the far end",
    "level_note": SYS_NOTE + "; close racing unread data is not asserted (TCP may legally cut the tail)",
}

CHECKS["C19"] = {
    "subs": [
        {"pkg": "sim", "test": "TestC19Rebalance", "quick": 4000, "thorough": 200000, "shards_quick": 8, "shards_thorough": 16},
        {"pkg": "sys", "test": "TestC19Disabled", "quick": 4, "thorough": 48, "shards_quick": 4, "shards_thorough": 8, "timeout_quick": 600},
    ],
    "engine": "PURE+SYS",
    "level_text": "Property-based test of one Rebalance() step on the real upstream server with real yamux sessions and generated cluster views (thresholds placed on the balance, whole-number averages of zero, non-active nodes with connections): the number of closed sessions must respect the statement's preconditions and cap; on real clusters rebalancing with threshold 0 must never shed. Exploration only.",
    "technique": "PBT (rapid) with an arithmetic oracle derived from the statement; session closure counted on real yamux sessions",
    "level_note": "no lower bound on shedding is asserted (the statement gives none); balances within 1e-9 of the threshold accept either outcome",
}

CHECKS["C20"] = {
    "subs": [
        {"pkg": "sim", "test": "TestC20Program", "race": True, "quick": 600, "thorough": 12000, "shards_quick": 8, "shards_thorough": 16, "timeout_quick": 900, "timeout_thorough": 7200},
        {"pkg": "sim", "test": "TestC20Window", "race": True, "quick": 400, "thorough": 20000, "shards_quick": 4, "shards_thorough": 16, "timeout_quick": 600, "timeout_thorough": 3600},
        {"pkg": "sys", "test": "TestC20Churn", "race": True, "quick": 2, "thorough": 48, "shards_quick": 2, "shards_thorough": 8, "timeout_quick": 900, "timeout_thorough": 7200},
    ],
    "engine": "SIM+SYS (-race)",
    "level_text": "Generated concurrent programs over one real node stack and generated churn on real clusters, both built with the race detector: the detector reports unsynchronised access from happens-before (without needing the bad interleaving), a watchdog catches deadlocks, and at quiescence registry, routing table and gossip state must agree. Exploration only; interleavings are sampled.",
    "technique": "PBT-generated concurrent programs under the Go race detector + quiescence invariants; schedule-owning overlap of two operations at call-outs with a sequential-order (linearizability) oracle",
    "level_note": "absence of a race on paths the generated programs do not execute is not shown",
}

NOT_APPLICABLE = {}
