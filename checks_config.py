"""Which tests decide which property, and how many cases per tier.

quick/thorough = number of rapid cases in total (split over shards)."""

CHECKS = {
    "C17": {
        "subs": [
            {"pkg": "pure", "test": "TestC17LWW", "quick": 20000, "thorough": 1000000, "shards_quick": 8, "shards_thorough": 16},
        ],
        "engine": "PURE",
        "level_text": "Stateful property-based test: generated upsert/delete/compact/leave sequences on the real gossip state object are compared step by step with a reference last-write-wins map (visible keys, tombstones, version freshness, no-op detection, compaction effects). Exploration only: shows the property for the generated sequences.",
        "technique": "model-based stateful PBT (rapid) vs reference map",
        "assumptions": ["keys outside the reserved _internal: prefix", "CompactLocal threshold >= 1 (the only caller passes 100)"],
    },
}

CHECKS["C15"] = {
    "subs": [
        {"pkg": "pure", "test": "TestC15Select", "quick": 20000, "thorough": 800000, "shards_quick": 6, "shards_thorough": 12},
        {"pkg": "pure", "test": "TestC15Balancer", "quick": 10000, "thorough": 400000, "shards_quick": 4, "shards_thorough": 8},
        {"pkg": "pure", "test": "TestC15Concurrent", "quick": 3000, "thorough": 100000, "shards_quick": 4, "shards_thorough": 8},
    ],
    "engine": "PURE",
    "level_text": "Stateful property-based tests on the real LoadBalancedManager and its round-robin helper against an ordered-membership model: every selection is a currently registered upstream of exactly that endpoint, non-forwardable requests never get a remote node, every window of n selections over a stable set is a permutation, and a concurrent variant checks selections against registration intervals on a logical clock. Exploration only.",
    "technique": "model-based stateful PBT (rapid), window-permutation oracle, interval-overlap oracle for concurrent runs",
    "assumptions": ["each upstream object is registered at most once (as the upstream handler does)"],
}
CHECKS["C12"] = {
    "subs": [
        {"pkg": "pure", "test": "TestC12Phi", "quick": 20000, "thorough": 1500000, "shards_quick": 8, "shards_thorough": 16},
        {"pkg": "pure", "test": "TestC12PrefixIndependence", "quick": 5000, "thorough": 300000, "shards_quick": 4, "shards_thorough": 8},
    ],
    "engine": "PURE",
    "level_text": "Property-based test of the arrival window and the detector map against an exact rational reference (math/big) over generated arrival sequences up to 5x the window length, plus direct accuracy/completeness bounds and a metamorphic prefix-independence relation. Exploration only.",
    "technique": "differential PBT against an exact-arithmetic reference + metamorphic relation (rapid)",
    "assumptions": ["arrival timestamps strictly increase (wall clock in production)", "float comparison tolerance 1e-9 relative"],
}

NOT_APPLICABLE = {}
