#!/usr/bin/env python3
"""Confirms a seeded change produced by a sub-agent and files it under /verif/seeded/.

  ./seedtool.py <worktree> <property> <name> [--tier quick] [--checks C02,C13]

Steps (all in a scratch copy of /repo under /tmp, removed afterwards):
  1. patch applies to /repo's HEAD, project builds, the existing suite passes with it;
  2. the demonstration test fails with the patch and passes without it;
  3. the owning check(s) are run against the patched copy (VERIF_REPO) and the outcome recorded.
"""
import argparse, json, os, re, shutil, subprocess, sys, tempfile, time

VERIF = os.path.dirname(os.path.abspath(__file__))
GOENV = dict(os.environ, GOFLAGS="-mod=mod", GOPROXY="off")


def sh(cmd, cwd, env=GOENV, timeout=1800):
    p = subprocess.run(cmd, cwd=cwd, env=env, shell=isinstance(cmd, str), capture_output=True, text=True, timeout=timeout)
    return p.returncode, (p.stdout + p.stderr)


def main():
    ap = argparse.ArgumentParser()
    ap.add_argument("worktree")
    ap.add_argument("property")
    ap.add_argument("name")
    ap.add_argument("--tier", default="quick")
    ap.add_argument("--checks")
    ap.add_argument("--needs", default="")
    a = ap.parse_args()
    wt = a.worktree
    patch = os.path.join(wt, "SEEDED", "patch.diff")
    rc, out = sh("git ls-files --others --exclude-standard", wt)
    demos = [l for l in out.split() if l.endswith("_test.go") and not l.startswith("SEEDED/")]
    if not demos:
        print("no demonstration test found in the worktree", out)
        sys.exit(2)
    root = tempfile.mkdtemp(prefix="vseed-", dir="/tmp")
    repo = os.path.join(root, "repo")
    log = {}
    try:
        subprocess.run(["rsync", "-a", "--exclude", ".git", "/repo/", repo + "/"], check=True)
        rc, out = sh(["patch", "-p1", "-s", "-i", patch], repo)
        if rc != 0:
            print("PATCH DOES NOT APPLY\n" + out)
            sys.exit(2)
        rc, out = sh("go build ./... && go test -vet=off -count=1 ./...", repo)
        log["suite_with_patch"] = "pass" if rc == 0 else "FAIL"
        print("existing suite with the change:", log["suite_with_patch"])
        if rc != 0:
            print(out[-3000:])
            sys.exit(2)
        # demonstration
        pkgs = set()
        names = []
        for d in demos:
            dst = os.path.join(repo, d)
            os.makedirs(os.path.dirname(dst), exist_ok=True)
            shutil.copyfile(os.path.join(wt, d), dst)
            pkgs.add("./" + os.path.dirname(d))
            names += re.findall(r"^func (Test\w+)\(", open(dst).read(), re.M)
        run = "^(" + "|".join(names) + ")$"
        tags = ""
        for d in demos:
            m = re.search(r"^//go:build (.+)$", open(os.path.join(wt, d)).read(), re.M)
            if m:
                tags = "-tags " + m.group(1).split()[0]
        demo_cmd = "go test -vet=off -count=1 %s -run '%s' %s" % (tags, run, " ".join(sorted(pkgs)))
        rc1, out1 = sh(demo_cmd, repo)
        log["demo_with_patch"] = "fail" if rc1 != 0 else "PASS(unexpected)"
        sh(["patch", "-p1", "-R", "-s", "-i", patch], repo)
        rc2, out2 = sh(demo_cmd, repo)
        log["demo_without_patch"] = "pass" if rc2 == 0 else "FAIL(unexpected)"
        print("demo with the change:", log["demo_with_patch"], "| without:", log["demo_without_patch"])
        if rc1 == 0 or rc2 != 0:
            print(out1[-2000:], "\n-----\n", out2[-2000:])
            sys.exit(2)
        # our checks against the patched tree
        sh(["patch", "-p1", "-s", "-i", patch], repo)
        for d in demos:
            os.remove(os.path.join(repo, d))
        env = dict(os.environ, VERIF_REPO=repo, VERIF_BUILD=os.path.join(root, "build"), VERIF_NO_EVIDENCE="1")
        env.setdefault("VERIF_SEED", "1")
        env.setdefault("VERIF_TIME_SCALE", "0.3")
        results = {}
        for pid in (a.checks or a.property).split(","):
            t0 = time.time()
            p = subprocess.run([os.path.join(VERIF, "check"), pid, "--tier", a.tier], env=env, capture_output=True, text=True)
            results[pid] = {"rc": p.returncode, "wall_s": round(time.time() - t0, 1),
                            "line": next((l for l in p.stdout.splitlines() if l.startswith("VIOLATION")), "")}
            print("check %s -> rc=%d %s (%.0fs)" % (pid, p.returncode, results[pid]["line"], time.time() - t0))
            if p.returncode not in (0, 1):
                print(p.stdout[-2500:])
        log["checks"] = results
        # file it
        dst = os.path.join(VERIF, "seeded", a.name)
        os.makedirs(dst, exist_ok=True)
        shutil.copyfile(patch, os.path.join(dst, "patch.diff"))
        for d in demos:
            shutil.copyfile(os.path.join(wt, d), os.path.join(dst, os.path.basename(d) + ".txt"))
        notes = os.path.join(wt, "SEEDED", "NOTES.md")
        if os.path.exists(notes):
            shutil.copyfile(notes, os.path.join(dst, "NOTES.md"))
        meta = {
            "property": a.property,
            "needs_to_manifest": a.needs,
            "demo_files": demos,
            "demo_cmd": demo_cmd,
            "confirmed": {"suite_with_patch": log["suite_with_patch"], "demo_with_patch": log["demo_with_patch"], "demo_without_patch": log["demo_without_patch"]},
            "checks_run": results,
            "detected_by": [p for p, r in results.items() if r["rc"] == 1],
            "base_commit": subprocess.run(["git", "-C", "/repo", "log", "-1", "--format=%h"], capture_output=True, text=True).stdout.strip(),
        }
        json.dump(meta, open(os.path.join(dst, "meta.json"), "w"), indent=1)
        print("filed under", dst, "detected_by=", meta["detected_by"])
    finally:
        shutil.rmtree(root, ignore_errors=True)


main()
