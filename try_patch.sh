#!/bin/bash
# ./try_patch.sh <patch.diff> <property> [seed] [tier]  - run one check against a scratch copy of /repo with the patch applied
set -e
P=$(realpath "$1"); PROP=$2; SEED=${3:-1}; TIER=${4:-quick}
D=$(mktemp -d /tmp/vtry-XXXXXX)
trap "rm -rf $D" EXIT
rsync -a --exclude .git /repo/ $D/repo/
(cd $D/repo && patch -p1 -s -i "$P")
VERIF_REPO=$D/repo VERIF_BUILD=$D/build VERIF_NO_EVIDENCE=1 VERIF_TIME_SCALE=0.3 VERIF_SEED=$SEED /verif/check $PROP --tier $TIER 2>&1 | grep -E "seed=|VIOLATION" || true
