#!/usr/bin/env python3
"""Re-runs the checks against every seeded change and updates meta.json:
  first_detected_by  - what the quick tier caught when the change was filed
  detected_by        - what it catches now (after the strengthening recorded in notes.json)"""
import glob, json, os, shutil, subprocess, sys, tempfile, time
V = os.path.dirname(os.path.abspath(__file__))
only = sys.argv[1] if len(sys.argv) > 1 else ""
for mp in sorted(glob.glob(os.path.join(V, "seeded", "*", "meta.json"))):
    name = os.path.basename(os.path.dirname(mp))
    if only and not any(name.startswith(o) for o in only.split(",")):
        continue
    m = json.load(open(mp))
    m.setdefault("first_detected_by", m.get("detected_by", []))
    checks = sorted(set(list(m.get("checks_run", {}).keys()) + [m["property"]]))
    root = tempfile.mkdtemp(prefix="vreseed-", dir="/tmp")
    repo = os.path.join(root, "repo")
    try:
        subprocess.run(["rsync", "-a", "--exclude", ".git", "/repo/", repo + "/"], check=True)
        p = subprocess.run(["patch", "-p1", "-s", "-i", os.path.join(os.path.dirname(mp), "patch.diff")], cwd=repo, capture_output=True, text=True)
        if p.returncode != 0:
            print(name, "PATCH FAILED")
            continue
        env = dict(os.environ, VERIF_REPO=repo, VERIF_BUILD=os.path.join(root, "build"), VERIF_NO_EVIDENCE="1", VERIF_TIME_SCALE="0.3")
        env.setdefault("VERIF_SEED", "1")
        res = {}
        for pid in checks:
            t0 = time.time()
            r = subprocess.run([os.path.join(V, "check"), pid, "--tier", "quick"], env=env, capture_output=True, text=True)
            res[pid] = {"rc": r.returncode, "wall_s": round(time.time() - t0, 1)}
        m["checks_run"] = res
        m["detected_by"] = [k for k, v in res.items() if v["rc"] == 1]
        json.dump(m, open(mp, "w"), indent=1)
        print("%-55s first=%s now=%s" % (name, m["first_detected_by"], m["detected_by"]), flush=True)
    finally:
        shutil.rmtree(root, ignore_errors=True)
