#!/usr/bin/env python3
"""Regenerates MANIFEST.json from checks_config.py (single source of truth)."""
import json, os, sys
VERIF = os.path.dirname(os.path.abspath(__file__))
sys.path.insert(0, VERIF)
from checks_config import CHECKS, NOT_APPLICABLE

props = [json.loads(l) for l in open(os.path.join(VERIF, "properties.jsonl"))]
ids = [p["id"] for p in props]
checks = []
for pid in ids:
    if pid not in CHECKS:
        continue
    c = CHECKS[pid]
    checks.append({
        "property_id": pid,
        "quick_cmd": "./check %s --tier quick" % pid,
        "thorough_cmd": "./check %s --tier thorough" % pid,
        "evidence_file": "/verif/evidence/%s.json" % pid,
        "replay_cmd_template": "./check %s --replay {path}" % pid,
        "engine": c.get("engine", "PURE"),
        "level_claimed": {"category": "exploration", "text": c["level_text"], "design_ref": c.get("design_ref", "DESIGN.md section 4, " + pid)},
        "level_note": c.get("level_note", "rapid generators and the oracle described in DESIGN.md are trusted; absence of violations is shown only for the explored cases"),
        "technique": c.get("technique", "property-based testing (rapid) against an explicit oracle"),
    })
na = [{"property_id": p, "reason": NOT_APPLICABLE[p]} for p in ids if p not in CHECKS and p in NOT_APPLICABLE]
for p in ids:
    if p not in CHECKS and p not in NOT_APPLICABLE:
        na.append({"property_id": p, "reason": "check not built yet (work in progress); see DESIGN.md"})
m = {
    "version": 1,
    "setup_cmd": "./check setup",
    "hooks": {
        "guard": "verif",
        "enable": "go test -tags verif -overlay /verif/build/overlay.json (export shims under /verif/shims are injected into /repo's packages by the overlay; nothing is committed to /repo for instrumentation)",
        "baseline_off_cmd": "cd /repo && go test -mod=mod -vet=off -count=1 -timeout 25m ./...",
        "source_commits": [],
        "add_only": True,
    },
    "engines": [
        {"name": "PURE", "path": "/verif/harness/pure", "serves_properties": [p for p in ids if p in CHECKS and any(s["pkg"] == "pure" for s in CHECKS[p]["subs"])], "kind_free_text": "rapid properties over single objects (reference models, exact arithmetic, codec cross-checks)"},
        {"name": "SIM", "path": "/verif/harness/sim", "serves_properties": [p for p in ids if p in CHECKS and any(s["pkg"] == "sim" for s in CHECKS[p]["subs"])], "kind_free_text": "deterministic simulation of 2-6 real control planes over a generated in-memory network inside a testing/synctest bubble (virtual clock)"},
        {"name": "SYS", "path": "/verif/harness/sys", "serves_properties": [p for p in ids if p in CHECKS and any(s["pkg"] == "sys" for s in CHECKS[p]["subs"])], "kind_free_text": "generated scenarios against in-process clusters of real piko servers and clients on loopback"},
    ],
    "checks": checks,
    "not_applicable": na,
    "notes": "All checks are property-based tests / fuzzers; see DESIGN.md. ./check <ID> --tier quick|thorough; VERIF_SEED selects the PRNG values. Exit 0 = held, 1 = VIOLATION line, 2 = undecided (build failure, harness error, time-out, starved machine). /repo carries nine unguarded 'fix:' commits (D1-D9, recorded as fixed in /verif/known_findings.json, each with a fixed regression case run by both tiers); two known findings (F2 for C11, F3 for C02) are printed as KNOWN-FINDING lines. Sensitivity: /verif/seeded (128 changes by independent sub-agents), /verif/mutants.py (85), DESIGN.md section 9.",
}
json.dump(m, open(os.path.join(VERIF, "MANIFEST.json"), "w"), indent=1)
print("MANIFEST.json: %d checks, %d not_applicable" % (len(checks), len(na)))
