#!/usr/bin/env python3
"""Rewrites the generated tables of DESIGN.md section 9 from seeded/*/meta.json,
mutants.py and the last selftest log (selftest_results.json)."""
import json, os, re, glob
V = os.path.dirname(os.path.abspath(__file__))
import sys
sys.path.insert(0, V)
from mutants import MUTANTS
out = []
out.append("### 9.1 Changes seeded by independent sub-agents\n")
out.append("Each sub-agent was given only the text of one property and a scratch worktree; it produced a change that compiles, passes the existing suite, and breaks the property only under specific conditions, plus a demonstration test. `seedtool.py` re-confirmed all of that in a fresh scratch copy (suite passes with the change; demonstration fails with it and passes without it) and then ran the owning checks' quick tier against the changed tree.\n")
out.append("| seeded change | property | needs, to manifest | detected when filed | detected now (quick tier) | notes |")
out.append("|---|---|---|---|---|---|")
notes = {}
try:
    notes = json.load(open(os.path.join(V, "seeded", "notes.json")))
except Exception:
    pass
for d in sorted(glob.glob(os.path.join(V, "seeded", "*", "meta.json"))):
    m = json.load(open(d))
    name = os.path.basename(os.path.dirname(d))
    det = ", ".join(m.get("detected_by") or []) or "**not detected**"
    ran = ", ".join("%s:%s" % (k, {0: "pass", 1: "VIOLATION", 2: "undecided"}.get(v["rc"], v["rc"])) for k, v in m.get("checks_run", {}).items())
    first = ", ".join(m.get("first_detected_by", m.get("detected_by") or [])) or "none"
    out.append("| `%s` | %s | %s | %s | %s | %s |" % (name, m["property"], m.get("needs_to_manifest", ""), first, det, notes.get(name, "ran " + ran)))
out.append("")
out.append("### 9.2 Hand-written mutants (`mutants.py`, run by `./selftest`)\n")
res = {}
try:
    res = json.load(open(os.path.join(V, "selftest_results.json")))
except Exception:
    pass
out.append("%d mutants; each is applied to a scratch copy of /repo and the listed checks' quick tier must exit 1. Equivalent mutants that were tried are kept as comments in `mutants.py`.\n" % len(MUTANTS))
out.append("| mutant | expected to be killed by | last result |")
out.append("|---|---|---|")
for m in MUTANTS:
    r = res.get(m["name"], {})
    out.append("| `%s` | %s | %s |" % (m["name"], m["property"], ("%s by %s" % (r.get("status"), r.get("by"))) if r else "see selftest log"))
out.append("")
p = os.path.join(V, "DESIGN.md")
s = open(p).read()
a = s.index("<!-- BEGIN GENERATED TABLES -->") + len("<!-- BEGIN GENERATED TABLES -->")
b = s.index("<!-- END GENERATED TABLES -->")
s = s[:a] + "\n" + "\n".join(out) + "\n" + s[b:]
open(p, "w").write(s)
print("tables written:", len(glob.glob(os.path.join(V, "seeded", "*", "meta.json"))), "seeded,", len(MUTANTS), "mutants")
