"""Hand-written realistic breaks used by ./selftest to validate the checks.
Each: name, property (comma separated list of checks expected to kill it; one is enough), edits = [(file, old, new)]."""

MUTANTS = [
    # ---- C17
    {"name": "C17-revert-D2", "property": "C17", "edits": [("pkg/gossip/state.go", "if existing.Value == value && !existing.Deleted {", "if existing.Value == value {")]},
    {"name": "C17-delete-no-version", "property": "C17", "edits": [("pkg/gossip/state.go", "\tstate.Version++\n\n\tstate.Entries[key] = Entry{\n\t\tKey:      existing.Key,", "\tstate.Entries[key] = Entry{\n\t\tKey:      existing.Key,")]},
    {"name": "C17-compact-drops-internal", "property": "C17", "edits": [("pkg/gossip/state.go", "if entry.Internal && entry.Key == compactKey {", "if entry.Internal {")]},
    {"name": "C17-compact-keeps-tombstones", "property": "C17", "edits": [("pkg/gossip/state.go", "\t\tif entry.Deleted {\n\t\t\t// Discard deleted entries.\n\t\t\tcontinue\n\t\t}", "")]},
    # ---- C15
    {"name": "C15-no-renormalise", "property": "C15", "edits": [("server/upstream/manager.go", "\t\tlb.nextIndex %= len(lb.upstreams)\n\t\treturn false", "\t\treturn false")]},
    {"name": "C15-next-not-advancing", "property": "C15", "edits": [("server/upstream/manager.go", "\tlb.nextIndex++\n\tlb.nextIndex %= len(lb.upstreams)\n\treturn u", "\treturn u")]},
    {"name": "C15-remove-wrong-index", "property": "C15", "edits": [("server/upstream/manager.go", "lb.upstreams = append(lb.upstreams[:i], lb.upstreams[i+1:]...)", "if i+1 < len(lb.upstreams) {\n\t\t\ti++\n\t\t}\n\t\tlb.upstreams = append(lb.upstreams[:i], lb.upstreams[i+1:]...)")]},
    {"name": "C15-select-ignores-allow", "property": "C15", "edits": [("server/upstream/manager.go", "\tif !allowRemote {\n\t\treturn nil, false\n\t}", "")]},
    # (C15-cursor-skip-after-remove was tried and is equivalent w.r.t. the property: both cursors give window permutations)
    # ---- C12
    {"name": "C12-evict-wrong-slot", "property": "C12", "edits": [("pkg/gossip/failuredetector.go", "i.sum = i.sum - i.intervals[i.index]", "i.sum = i.sum - i.intervals[(i.index+len(i.intervals)-1)%len(i.intervals)]")]},
    {"name": "C12-full-one-late", "property": "C12", "edits": [("pkg/gossip/failuredetector.go", "\tif i.isFull {\n\t\ti.sum = i.sum - i.intervals[i.index]\n\t}", "\tif i.isFull && i.index != 0 {\n\t\ti.sum = i.sum - i.intervals[i.index]\n\t}")]},
    {"name": "C12-mean-by-capacity", "property": "C12", "edits": [("pkg/gossip/failuredetector.go", "i.mean = float64(i.sum) / float64(i.size())", "i.mean = float64(i.sum) / float64(len(i.intervals))")]},
    {"name": "C12-no-bootstrap", "property": "C12", "edits": [("pkg/gossip/failuredetector.go", "\t\tw.intervals.Add(w.bootstrapInterval.Nanoseconds())", "\t\tw.intervals.Add(1)")]},
]
