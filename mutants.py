"""Hand-written realistic breaks used by ./selftest to validate the checks.
Each: name, property (comma separated list of checks expected to kill it; one is enough), edits = [(file, old, new)]."""

MUTANTS = [
    # ---- C17
    {"name": "C17-revert-D2", "property": "C17", "edits": [("pkg/gossip/state.go", "if existing.Value == value && !existing.Deleted {", "if existing.Value == value {")]},
    {"name": "C17-delete-no-version", "property": "C17", "edits": [("pkg/gossip/state.go", "\tstate.Version++\n\n\tstate.Entries[key] = Entry{\n\t\tKey:      existing.Key,", "\tstate.Entries[key] = Entry{\n\t\tKey:      existing.Key,")]},
    {"name": "C17-compact-drops-internal", "property": "C17", "edits": [("pkg/gossip/state.go", "if entry.Internal && entry.Key == compactKey {", "if entry.Internal {")]},
    {"name": "C17-compact-keeps-tombstones", "property": "C17", "edits": [("pkg/gossip/state.go", "\t\tif entry.Deleted {\n\t\t\t// Discard deleted entries.\n\t\t\tcontinue\n\t\t}", "")]},
    # ---- C15
    {"name": "C15-no-renormalise", "property": "C15", "edits": [("server/upstream/manager.go", "\t\tlb.nextIndex %= len(lb.upstreams)\n\t\treturn false", "\t\treturn false")]},
    {"name": "C15-next-not-advancing", "property": "C15", "edits": [("server/upstream/manager.go", "\tlb.nextIndex++\n\tlb.nextIndex %= len(lb.upstreams)\n\treturn u", "\treturn u")]},
    {"name": "C15-remove-wrong-index", "property": "C15", "edits": [("server/upstream/manager.go", "lb.upstreams = append(lb.upstreams[:i], lb.upstreams[i+1:]...)", "if i+1 < len(lb.upstreams) {\n\t\t\ti++\n\t\t}\n\t\tlb.upstreams = append(lb.upstreams[:i], lb.upstreams[i+1:]...)")]},
    {"name": "C15-select-ignores-allow", "property": "C15", "edits": [("server/upstream/manager.go", "\tif !allowRemote {\n\t\treturn nil, false\n\t}", "")]},
    # (C15-cursor-skip-after-remove was tried and is equivalent w.r.t. the property: both cursors give window permutations)
    # ---- C12
    {"name": "C12-evict-wrong-slot", "property": "C12", "edits": [("pkg/gossip/failuredetector.go", "i.sum = i.sum - i.intervals[i.index]", "i.sum = i.sum - i.intervals[(i.index+len(i.intervals)-1)%len(i.intervals)]")]},
    {"name": "C12-full-one-late", "property": "C12", "edits": [("pkg/gossip/failuredetector.go", "\tif i.isFull {\n\t\ti.sum = i.sum - i.intervals[i.index]\n\t}", "\tif i.isFull && i.index != 0 {\n\t\ti.sum = i.sum - i.intervals[i.index]\n\t}")]},
    {"name": "C12-mean-by-capacity", "property": "C12", "edits": [("pkg/gossip/failuredetector.go", "i.mean = float64(i.sum) / float64(i.size())", "i.mean = float64(i.sum) / float64(len(i.intervals))")]},
    {"name": "C12-no-bootstrap", "property": "C12", "edits": [("pkg/gossip/failuredetector.go", "\t\tw.intervals.Add(w.bootstrapInterval.Nanoseconds())", "\t\tw.intervals.Add(1)")]},
    # ---- C02
    # (C02-apply-le-to-lt: tried, equivalent w.r.t. the property under honest owners / a complete fair exchange graph; see DESIGN.md)
    {"name": "C02-delta-from-lt", "property": "C02,C03", "edits": [("pkg/gossip/state.go", "\t\tif entry.Version <= fromVersion {\n\t\t\tcontinue\n\t\t}", "\t\tif entry.Version < fromVersion {\n\t\t\tcontinue\n\t\t}")]},
    {"name": "C02-delta-unsorted", "property": "C02,C13", "edits": [("pkg/gossip/state.go", "\tsort.Slice(deltaEntry.Entries, func(i, j int) bool {\n\t\treturn deltaEntry.Entries[i].Version < deltaEntry.Entries[j].Version\n\t})\n\n\treturn deltaEntry", "\treturn deltaEntry")]},
    {"name": "C02-no-local-guard", "property": "C02,C13", "edits": [("pkg/gossip/state.go", "\tif entry.ID == s.localID {\n\t\t// Discard updates about local node.\n\t\treturn\n\t}", "")]},
    {"name": "C02-compaction-lt", "property": "C02", "edits": [("pkg/gossip/state.go", "if e.Version <= compactVersion {", "if e.Version < compactVersion {")]},
    {"name": "C02-version-not-advanced-on-skip", "property": "C02", "edits": [("pkg/gossip/state.go", "\t\tstate.Entries[e.Key] = e\n\t\tstate.Version = e.Version", "\t\tstate.Entries[e.Key] = e\n\t\tif !e.Deleted {\n\t\t\tstate.Version = e.Version\n\t\t}")]},
    # ---- C03
    {"name": "C03-digest-no-discovery", "property": "C03", "edits": [("pkg/gossip/state.go", "\t\tif entry.Left {\n\t\t\tcontinue\n\t\t}\n\n\t\ts.nodes[entry.ID]", "\t\tif entry.Left || entry.Version > 3 {\n\t\t\tcontinue\n\t\t}\n\n\t\ts.nodes[entry.ID]")]},
    # (C03-delta-skips-version0: tried, equivalent w.r.t. the property under honest owners / a complete fair exchange graph; see DESIGN.md)
    {"name": "C03-digest-omits-self", "property": "C03", "edits": [("pkg/gossip/state.go", "\tfor _, state := range s.nodes {\n\t\tdigest = append(digest, digestEntry{", "\tfor _, state := range s.nodes {\n\t\tif state.ID == s.localID && len(s.nodes) > 2 {\n\t\t\tcontinue\n\t\t}\n\t\tdigest = append(digest, digestEntry{")]},
    # ---- C04
    {"name": "C04-lookup-ignores-status", "property": "C04,C11", "edits": [("server/cluster/state.go", "\t\tif node.Status != NodeStatusActive {\n\t\t\t// Ignore unreachable and left nodes.\n\t\t\tcontinue\n\t\t}\n\t\tif listeners, ok", "\t\tif listeners, ok")]},
    # (C04-lookup-zero-count: tried, equivalent w.r.t. the property under honest owners / a complete fair exchange graph; see DESIGN.md)
    {"name": "C04-compaction-no-delete-notify", "property": "C04,C14", "edits": [("pkg/gossip/state.go", "\t\t\t\t\t\tif !e.Deleted {\n\t\t\t\t\t\t\t// If we didn't already know the entry was deleted,\n\t\t\t\t\t\t\t// notify the watcher.\n\t\t\t\t\t\t\ts.watcher.OnDeleteKey(entry.ID, e.Key)\n\t\t\t\t\t\t}", "")]},
    {"name": "C04-promote-on-proxy-only", "property": "C04", "edits": [("server/gossip/syncer.go", "if node.ProxyAddr != \"\" && node.AdminAddr != \"\" {", "if node.ProxyAddr != \"\" {")]},
    {"name": "C04-expired-not-removed", "property": "C04,C11", "edits": [("server/gossip/syncer.go", "\tif removed := s.clusterState.RemoveNode(nodeID); removed {", "\tif removed := false; removed {")]},
    # (C04-pending-delete-ignored: tried, equivalent w.r.t. the property under honest owners / a complete fair exchange graph; see DESIGN.md)
    {"name": "C04-leave-not-mapped", "property": "C04,C11", "edits": [("server/gossip/syncer.go", "s.clusterState.UpdateRemoteStatus(nodeID, cluster.NodeStatusLeft)", "s.clusterState.UpdateRemoteStatus(nodeID, cluster.NodeStatusUnreachable)")]},
    # ---- C11
    {"name": "C11-digest-relearns-left", "property": "C11", "edits": [("pkg/gossip/state.go", "\t\tif entry.Left {\n\t\t\tcontinue\n\t\t}\n\n\t\ts.nodes[entry.ID]", "\t\ts.nodes[entry.ID]")]},
    {"name": "C11-expiry-not-cleared", "property": "C11", "edits": [("pkg/gossip/state.go", "\t\t\t\tnode.Unreachable = false\n\t\t\t\tnode.Expiry = time.Time{}", "\t\t\t\tnode.Unreachable = false")]},
    {"name": "C11-expire-one-second-early", "property": "C11", "edits": [("pkg/gossip/state.go", "if !state.Expiry.IsZero() && t.After(state.Expiry) {", "if !state.Expiry.IsZero() && t.After(state.Expiry.Add(-time.Second)) {")]},
    {"name": "C11-liveness-not-skipping-left", "property": "C11", "edits": [("pkg/gossip/state.go", "if node.ID == s.localID || node.Left {", "if node.ID == s.localID {")]},
    {"name": "C11-liveness-on-local", "property": "C11", "edits": [("pkg/gossip/state.go", "if node.ID == s.localID || node.Left {", "if node.Left {")]},
    {"name": "C11-after-to-before", "property": "C11", "edits": [("pkg/gossip/state.go", "t.After(state.Expiry)", "t.Before(state.Expiry)")]},
    {"name": "C11-left-applied-to-local", "property": "C11,C02", "edits": [("pkg/gossip/state.go", "\tif entry.ID == s.localID {\n\t\t// Discard updates about local node.\n\t\treturn\n\t}", "\tif entry.ID == s.localID {\n\t\tfor _, e := range entry.Entries {\n\t\t\tif e.Internal && e.Key == leftKey {\n\t\t\t\ts.nodes[s.localID].Left = true\n\t\t\t}\n\t\t}\n\t\treturn\n\t}")]},
    {"name": "C11-leave-no-expiry", "property": "C11", "edits": [("pkg/gossip/state.go", "\t\t\t\tstate.Left = true\n\t\t\t\tstate.Expiry = time.Now().Add(nodeExpiry)", "\t\t\t\tstate.Left = true")]},
    # ---- C14
    {"name": "C14-compaction-notify-inverted", "property": "C14", "edits": [("pkg/gossip/state.go", "\t\t\t\t\t\tif !e.Deleted {\n\t\t\t\t\t\t\t// If we didn't", "\t\t\t\t\t\tif e.Deleted {\n\t\t\t\t\t\t\t// If we didn't")]},
    {"name": "C14-no-join-on-delta-discovery", "property": "C14", "edits": [("pkg/gossip/state.go", "\t\tstate = s.nodes[entry.ID]\n\n\t\ts.watcher.OnJoin(entry.ID)", "\t\tstate = s.nodes[entry.ID]")]},
    {"name": "C14-tombstone-not-notified", "property": "C14", "edits": [("pkg/gossip/state.go", "\t\t\tif e.Deleted {\n\t\t\t\ts.watcher.OnDeleteKey(entry.ID, e.Key)\n\t\t\t} else {", "\t\t\tif e.Deleted {\n\t\t\t} else {")]},
    {"name": "C14-no-reachable-notification", "property": "C14", "edits": [("pkg/gossip/state.go", "\t\t\t\ts.watcher.OnReachable(node.ID)", "")]},
    # ---- C13
    {"name": "C13-revert-D5", "property": "C13", "edits": [("pkg/gossip/state.go", "\tif !utf8.ValidString(entry.ID) {\n\t\t// Discard updates about nodes with an invalid ID.", "\tif false {\n\t\t// Discard updates about nodes with an invalid ID.")]},
    {"name": "C13-size-check-ge", "property": "C13", "edits": [("pkg/gossip/protocol.go", "\t\t\tif buf.Len() > maxPacketSize {\n\t\t\t\tbreak\n\t\t\t}\n\t\t\tbufLen = buf.Len()\n\t\t\tentriesSent++", "\t\t\tif buf.Len() >= maxPacketSize {\n\t\t\t\tbreak\n\t\t\t}\n\t\t\tbufLen = buf.Len()\n\t\t\tentriesSent++")]},
    {"name": "C13-buflen-before-check", "property": "C13", "edits": [("pkg/gossip/protocol.go", "\t\t\tif buf.Len() > maxPacketSize {\n\t\t\t\tbreak\n\t\t\t}\n\t\t\tbufLen = buf.Len()\n\t\t\tentriesSent++", "\t\t\tbufLen = buf.Len()\n\t\t\tif buf.Len() > maxPacketSize {\n\t\t\t\tbreak\n\t\t\t}\n\t\t\tentriesSent++")]},
    {"name": "C13-digest-sender-off-by-one", "property": "C13", "edits": [("pkg/gossip/gossip.go", "\t\tif buf.Len() > g.config.MaxPacketSize {\n\t\t\tbreak\n\t\t}", "\t\tif buf.Len() > g.config.MaxPacketSize+1 {\n\t\t\tbreak\n\t\t}")]},
    {"name": "C13-decode-short-count-error", "property": "C13,C03", "edits": [("pkg/gossip/protocol.go", "\t\t\t\tif errors.Is(err, io.EOF) {\n\t\t\t\t\tbreak\n\t\t\t\t}\n\t\t\t\treturn deltaHeader{}, nil, fmt.Errorf(\"decode: %w\", err)\n\t\t\t}\n\n\t\t\tdeltaEntry.Entries", "\t\t\t\treturn deltaHeader{}, nil, fmt.Errorf(\"decode: %w\", err)\n\t\t\t}\n\n\t\t\tdeltaEntry.Entries")]},
    {"name": "C13-no-min-len-guard", "property": "C13", "edits": [("pkg/gossip/listener.go", "\tif len(b) < 2 {\n\t\treturn fmt.Errorf(\"packet too small: %d\", len(b))\n\t}", "")]},
    {"name": "C13-node-header-not-counted", "property": "C13", "edits": [("pkg/gossip/protocol.go", "\t\tif buf.Len() > maxPacketSize {\n\t\t\tbreak\n\t\t}\n\t\tbufLen = buf.Len()\n\n\t\tfor _, entry := range deltaEntry.Entries {", "\t\tfor _, entry := range deltaEntry.Entries {")]},
    # ---- C05
    {"name": "C05-revert-D1", "property": "C05", "edits": [("server/upstream/manager.go", "\tif !lb.Contains(u) {", "\tif false {")]},
    {"name": "C05-publish-minus-one", "property": "C05", "edits": [("server/gossip/syncer.go", "\tif listeners > 0 {\n\t\ts.gossiper.UpsertLocal(key, strconv.Itoa(listeners))", "\tif listeners > 1 {\n\t\ts.gossiper.UpsertLocal(key, strconv.Itoa(listeners))")]},
    {"name": "C05-unlock-before-cluster-update", "property": "C05", "edits": [("server/upstream/manager.go", "\tlb.Add(u)\n\tm.localUpstreams[u.EndpointID()] = lb\n\n\tm.cluster.AddLocalEndpoint(u.EndpointID())\n\n\tm.metrics.ConnectedUpstreams.Inc()\n}", "\tlb.Add(u)\n\tm.localUpstreams[u.EndpointID()] = lb\n\tm.mu.Unlock()\n\n\tm.cluster.AddLocalEndpoint(u.EndpointID())\n\n\tm.metrics.ConnectedUpstreams.Inc()\n\tm.mu.Lock()\n}")]},
    {"name": "C05-remove-only-last-withdraws", "property": "C05", "edits": [("server/upstream/manager.go", "\tm.cluster.RemoveLocalEndpoint(u.EndpointID())\n\n\tm.metrics.ConnectedUpstreams.Dec()", "\tif _, still := m.localUpstreams[u.EndpointID()]; !still {\n\t\tm.cluster.RemoveLocalEndpoint(u.EndpointID())\n\t}\n\n\tm.metrics.ConnectedUpstreams.Dec()")]},
    # ---- C01
    {"name": "C01-endpoint-precedence-swapped", "property": "C01,C10", "edits": [("server/proxy/server.go", "\tendpointID := r.Header.Get(\"x-piko-endpoint\")\n\tif endpointID != \"\" {\n\t\treturn endpointID\n\t}\n", "\thdrEndpointID := r.Header.Get(\"x-piko-endpoint\")\n\tif hdrEndpointID != \"\" && !strings.Contains(r.Host, \".\") {\n\t\treturn hdrEndpointID\n\t}\n")]},
    {"name": "C01-host-last-label", "property": "C01", "edits": [("server/proxy/server.go", "return strings.Split(host, \".\")[0]", "parts := strings.Split(host, \".\")\n\t\treturn parts[len(parts)-1]")]},
    {"name": "C01-host-case-folded", "property": "C01", "edits": [("server/proxy/server.go", "return strings.Split(host, \".\")[0]", "return strings.ToLower(strings.Split(host, \".\")[0])")]},
    {"name": "C01-select-prefix-match", "property": "C01,C15", "edits": [("server/upstream/manager.go", "\tlb, ok := m.localUpstreams[endpointID]\n\tif ok {\n\t\tm.metrics.UpstreamRequestsTotal.Inc()", "\tlb, ok := m.localUpstreams[endpointID]\n\tif !ok {\n\t\tfor id, cand := range m.localUpstreams {\n\t\t\tif strings.HasPrefix(id, endpointID) {\n\t\t\t\tlb, ok = cand, true\n\t\t\t}\n\t\t}\n\t}\n\tif ok {\n\t\tm.metrics.UpstreamRequestsTotal.Inc()"), ("server/upstream/manager.go", "import (\n\t\"crypto/tls\"", "import (\n\t\"crypto/tls\"\n\t\"strings\"")]},
    {"name": "C01-node-upstream-dials-admin", "property": "C01", "edits": [("server/upstream/upstream.go", "\treturn net.Dial(\"tcp\", u.node.ProxyAddr)", "\treturn net.Dial(\"tcp\", u.node.AdminAddr)")]},
    {"name": "C01-tcp-route-ignores-remote", "property": "C01", "edits": [("server/proxy/tcpproxy.go", "\tu, ok := p.upstreams.Select(endpointID, !forwarded)", "\tu, ok := p.upstreams.Select(endpointID, !forwarded && false)")]},
    # ---- C06
    {"name": "C06-forward-header-not-set", "property": "C06", "edits": [("server/proxy/httpproxy.go", "\tr.Header.Set(\"x-piko-forward\", \"true\")\n", "")]},
    {"name": "C06-http-always-allow-forward", "property": "C06", "edits": [("server/proxy/httpproxy.go", "\tupstream, ok := p.upstreams.Select(endpointID, !forwarded)", "\tupstream, ok := p.upstreams.Select(endpointID, !forwarded || true)")]},
    {"name": "C06-tcp-always-allow-forward", "property": "C06", "edits": [("server/proxy/tcpproxy.go", "\tu, ok := p.upstreams.Select(endpointID, !forwarded)", "\tu, ok := p.upstreams.Select(endpointID, !forwarded || true)")]},
    {"name": "C06-remote-before-local", "property": "C06,C15", "edits": [("server/upstream/manager.go", "\tlb, ok := m.localUpstreams[endpointID]\n\tif ok {\n\t\tm.metrics.UpstreamRequestsTotal.Inc()\n\t\treturn lb.Next(), true\n\t}", "\tif allowRemote {\n\t\tif node, ok := m.cluster.LookupEndpoint(endpointID); ok {\n\t\t\treturn NewNodeUpstream(endpointID, node, m.tlsConfig), true\n\t\t}\n\t}\n\tlb, ok := m.localUpstreams[endpointID]\n\tif ok {\n\t\tm.metrics.UpstreamRequestsTotal.Inc()\n\t\treturn lb.Next(), true\n\t}")]},
    {"name": "C06-forward-header-only-on-remote-dial", "property": "C06", "edits": [("server/proxy/httpproxy.go", "\tr.Header.Set(\"x-piko-forward\", \"true\")\n", "\tif !upstream.Forward() || r.Header.Get(\"upgrade\") != \"\" {\n\t\tr.Header.Set(\"x-piko-forward\", \"true\")\n\t}\n")]},
    # ---- C18
    {"name": "C18-revert-D4", "property": "C18", "edits": [("client/listener.go", "\t\t\tif l.closeCtx.Err() != nil {\n\t\t\t\treturn nil, ErrClosed\n\t\t\t}", "\t\t\treturn nil, ErrClosed")]},
    {"name": "C18-shutdown-no-leave", "property": "C18", "edits": [("server/server.go", "if err := s.gossiper.Leave(ctx); err != nil {", "if err := error(nil); err != nil {")]},
    {"name": "C18-leave-notifies-nobody", "property": "C18", "edits": [("pkg/gossip/gossip.go", "\t\tif node.Left || node.Unreachable {\n\t\t\t// Ignore left/unreachable nodes.\n\t\t\tcontinue\n\t\t}", "\t\tif node.ID != \"\" {\n\t\t\tcontinue\n\t\t}")]},
    {"name": "C18-upstream-shutdown-not-cancel", "property": "C18,C16", "edits": [("server/upstream/server.go", "\t// Close the context to close upstream connections.\n\ts.cancel()\n", "")]},
    {"name": "C18-leave-local-no-marker", "property": "C18,C11", "edits": [("pkg/gossip/state.go", "\tstate.Version++\n\tstate.Entries[leftKey] = Entry{\n\t\tKey:      leftKey,\n\t\tVersion:  state.Version,\n\t\tInternal: true,\n\t}", "")]},
    {"name": "C18-reconnect-backoff-gives-up", "property": "C18", "edits": [("client/upstream.go", "\t\tvar retryableError *websocket.RetryableError\n\t\tif !errors.As(err, &retryableError) {", "\t\tvar retryableError *websocket.RetryableError\n\t\tif true || !errors.As(err, &retryableError) {")]},
    # ---- C16
    # (C16-goaway-path-skips-removal: tried; dead code / not an ending at all, equivalent for C16)
    {"name": "C16-remove-session-not-deferred", "property": "C16,C19", "edits": [("server/upstream/server.go", "\ts.addSession(sess)\n\tdefer s.removeSession(sess)", "\ts.addSession(sess)")]},
    {"name": "C16-removeconn-skipped-on-expiry", "property": "C16", "edits": [("server/upstream/server.go", "\ts.upstreams.AddConn(upstream)\n\tdefer s.upstreams.RemoveConn(upstream)", "\ts.upstreams.AddConn(upstream)\n\texpired := false\n\tdefer func() {\n\t\tif !expired {\n\t\t\ts.upstreams.RemoveConn(upstream)\n\t\t}\n\t}()"), ("server/upstream/server.go", "\t\t\t\ts.logger.Info(\"upstream token expired\")", "\t\t\t\texpired = true\n\t\t\t\ts.logger.Info(\"upstream token expired\")")]},
    {"name": "C16-no-deadline-from-token", "property": "C16", "edits": [("server/upstream/server.go", "\t\tif !endpointToken.Expiry.IsZero() {", "\t\tif !endpointToken.Expiry.IsZero() && false {")]},
    {"name": "C16-deadline-one-second-early", "property": "C16", "edits": [("server/upstream/server.go", "ctx, cancel = context.WithDeadline(ctx, endpointToken.Expiry)", "ctx, cancel = context.WithDeadline(ctx, endpointToken.Expiry.Add(-time.Second))"), ("server/upstream/server.go", "\t\"net/http\"\n\t\"sync\"", "\t\"net/http\"\n\t\"sync\"\n\t\"time\"")]},
    {"name": "C16-disable-expiry-ignored", "property": "C16", "edits": [("pkg/auth/jwtverifier.go", "if claims.ExpiresAt != nil && !v.disableDisconnectOnExpiry {", "if claims.ExpiresAt != nil {")]},
    # (C16-shed-closes-without-release: tried; dead code / not an ending at all, equivalent for C16)
]
