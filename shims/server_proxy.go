//go:build verif

package proxy

import "github.com/gin-gonic/gin"

func (s *Server) VerifRoutes() gin.RoutesInfo {
	return s.httpServer.Handler.(*gin.Engine).Routes()
}

func (s *Server) VerifClose() { _ = s.httpServer.Close() }
