//go:build verif

package gossip

import (
	"github.com/andydunstall/piko/pkg/log"
	"github.com/andydunstall/piko/server/cluster"
)

type VerifSyncer = syncer

type VerifGossiper interface {
	UpsertLocal(key, value string)
	DeleteLocal(key string)
}

func VerifNewSyncer(cs *cluster.State) *VerifSyncer { return newSyncer(cs, log.NewNopLogger()) }
func (s *syncer) VerifSync(g VerifGossiper)         { s.Sync(g) }
func (s *syncer) VerifPending() int                 { s.mu.Lock(); defer s.mu.Unlock(); return len(s.pendingNodes) }
