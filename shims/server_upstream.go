//go:build verif

package upstream

import (
	"github.com/andydunstall/yamux"
	"github.com/gin-gonic/gin"
)

// VerifLoadBalancer exposes the round-robin helper to the verification harness.
type VerifLoadBalancer = loadBalancer

func (lb *loadBalancer) VerifLen() int { return len(lb.upstreams) }

func (s *Server) VerifOpenSessions() int { return s.openSessions() }

func (s *Server) VerifAddSession(sess *yamux.Session) { s.addSession(sess) }

func (s *Server) VerifRemoveSession(sess *yamux.Session) { s.removeSession(sess) }

func (s *Server) VerifRoutes() gin.RoutesInfo {
	return s.httpServer.Handler.(*gin.Engine).Routes()
}

// VerifClose ends the server abruptly: no graceful HTTP shutdown.
func (s *Server) VerifClose() {
	s.cancel()
	_ = s.httpServer.Close()
}

// VerifOpenStreams sums the open multiplexed streams over all upstream sessions.
func (s *Server) VerifOpenStreams() int {
	s.sessionsMu.Lock()
	defer s.sessionsMu.Unlock()
	n := 0
	for sess := range s.sessions {
		n += sess.NumStreams()
	}
	return n
}

// VerifGoAwaySessions counts the sessions whose peer has announced go-away
// (probing with a stream that is closed at once when it does open).
func (s *Server) VerifGoAwaySessions() int {
	s.sessionsMu.Lock()
	var all []*yamux.Session
	for sess := range s.sessions {
		all = append(all, sess)
	}
	s.sessionsMu.Unlock()
	n := 0
	for _, sess := range all {
		st, err := sess.OpenStream()
		if err == yamux.ErrRemoteGoAway {
			n++
		} else if err == nil {
			_ = st.Close()
		}
	}
	return n
}
