//go:build verif

package upstream

import (
	"github.com/andydunstall/yamux"
	"github.com/gin-gonic/gin"
	"github.com/prometheus/client_golang/prometheus"
)

// VerifLoadBalancer exposes the round-robin helper to the verification harness.
type VerifLoadBalancer = loadBalancer

func (lb *loadBalancer) VerifLen() int { return len(lb.upstreams) }

func (s *Server) VerifOpenSessions() int { return s.openSessions() }

func (s *Server) VerifAddSession(sess *yamux.Session) { s.addSession(sess) }

func (s *Server) VerifRemoveSession(sess *yamux.Session) { s.removeSession(sess) }

func (s *Server) VerifRoutes() gin.RoutesInfo {
	return s.httpServer.Handler.(*gin.Engine).Routes()
}

// VerifClose ends the server abruptly: no graceful HTTP shutdown.
func (s *Server) VerifClose() {
	s.cancel()
	_ = s.httpServer.Close()
}

// VerifOpenStreams sums the open multiplexed streams over all upstream sessions.
func (s *Server) VerifOpenStreams() int {
	s.sessionsMu.Lock()
	defer s.sessionsMu.Unlock()
	n := 0
	for sess := range s.sessions {
		n += sess.NumStreams()
	}
	return n
}

// VerifGoAwaySessions counts the sessions whose peer has announced go-away
// (probing with a stream that is closed at once when it does open).
func (s *Server) VerifGoAwaySessions() int {
	s.sessionsMu.Lock()
	var all []*yamux.Session
	for sess := range s.sessions {
		all = append(all, sess)
	}
	s.sessionsMu.Unlock()
	n := 0
	for _, sess := range all {
		st, err := sess.OpenStream()
		if err == yamux.ErrRemoteGoAway {
			n++
		} else if err == nil {
			_ = st.Close()
		}
	}
	return n
}

// verifGauge / verifCounter let the harness observe (and own the schedule at)
// the manager's calls into its metrics.
type verifGauge struct {
	prometheus.Gauge
	name string
	hook func(point string)
}

func (g *verifGauge) Inc() { g.hook(g.name + ".Inc"); g.Gauge.Inc() }
func (g *verifGauge) Dec() { g.hook(g.name + ".Dec"); g.Gauge.Dec() }

type verifCounter struct {
	prometheus.Counter
	name string
	hook func(point string)
}

func (c *verifCounter) Inc() { c.hook(c.name + ".Inc"); c.Counter.Inc() }

// VerifHookMetrics routes the manager's gauge/counter updates through hook.
func (m *LoadBalancedManager) VerifHookMetrics(hook func(point string)) {
	m.metrics.ConnectedUpstreams = &verifGauge{m.metrics.ConnectedUpstreams, "connected_upstreams", hook}
	m.metrics.RegisteredEndpoints = &verifGauge{m.metrics.RegisteredEndpoints, "registered_endpoints", hook}
	m.metrics.UpstreamRequestsTotal = &verifCounter{m.metrics.UpstreamRequestsTotal, "upstream_requests_total", hook}
}
