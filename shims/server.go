//go:build verif

package server

import (
	"github.com/andydunstall/piko/server/admin"
	"github.com/andydunstall/piko/server/gossip"
	"github.com/andydunstall/piko/server/proxy"
	"github.com/andydunstall/piko/server/upstream"
)

// VerifKill stops the node the way a crash does: no leave, no graceful
// shutdown; gossip sockets, listeners and sessions are closed at once.
func (s *Server) VerifKill() {
	s.shutdown.Store(true)
	s.stopJWKSRefresher()
	s.rebalanceCancel()
	_ = s.gossiper.Close()
	s.upstreamServer.VerifClose()
	s.proxyServer.VerifClose()
	s.adminServer.VerifClose()
}

func (s *Server) VerifUpstream() *upstream.Server { return s.upstreamServer }
func (s *Server) VerifProxy() *proxy.Server       { return s.proxyServer }
func (s *Server) VerifAdmin() *admin.Server       { return s.adminServer }
func (s *Server) VerifGossip() *gossip.Gossip     { return s.gossiper }
