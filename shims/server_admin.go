//go:build verif

package admin

import "github.com/gin-gonic/gin"

func (s *Server) VerifRoutes() gin.RoutesInfo { return s.router.Routes() }

func (s *Server) VerifClose() { _ = s.httpServer.Close() }
