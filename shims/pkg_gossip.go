//go:build verif

package gossip

import (
	"bufio"
	"bytes"
	"net"
	"sync"
	"time"

	"go.uber.org/atomic"

	"github.com/andydunstall/piko/pkg/log"
)

type (
	VerifClusterState = clusterState
	VerifDigest       = digest
	VerifDigestEntry  = digestEntry
	VerifDelta        = delta
	VerifDeltaEntry   = deltaEntry
)

const (
	VerifNodeExpiry         = nodeExpiry
	VerifSuspicionThreshold = suspicionThreshold
	VerifLeftKey            = leftKey
	VerifCompactKey         = compactKey
)

type VerifNode struct {
	State *clusterState
	PL    *packetListener
	SL    *streamListener
	G     *Gossip
	FD    *accrualFailureDetector
}

func VerifNewNode(id, addr string, maxPacket int, interval time.Duration, pc net.PacketConn, w Watcher) *VerifNode {
	if w == nil {
		w = newNopWatcher()
	}
	m := newMetrics()
	fd := newAccrualFailureDetector(interval*2, 50)
	st := newClusterState(id, addr, fd, m, w)
	cfg := &Config{BindAddr: addr, AdvertiseAddr: addr, Interval: interval, MaxPacketSize: maxPacket}
	lg := log.NewNopLogger()
	pl := newPacketListener(pc, st, fd, maxPacket, m, lg)
	sl := newStreamListener(nil, st, streamTimeout, m, lg)
	g := &Gossip{state: st, config: cfg, packetListener: pl, streamListener: sl, packetConn: pc, metrics: m, logger: lg, closed: atomic.NewBool(false), shutdownCh: make(chan struct{})}
	return &VerifNode{State: st, PL: pl, SL: sl, G: g, FD: fd}
}

func (n *VerifNode) HandlePacket(b []byte) error      { return n.PL.handlePacket(b) }
func (n *VerifNode) GossipTo(meta NodeMetadata) error { return n.G.gossip(meta) }
func (n *VerifNode) Suspicion(id string) float64      { return n.FD.SuspicionLevel(id) }

// LeaveVia mirrors Gossip.leave: pushes the local delta to peer's stream handler.
func (n *VerifNode) LeaveVia(peer *VerifNode) error {
	var req bytes.Buffer
	req.WriteByte(byte(messageTypeLeave))
	req.WriteByte(supportedVersion)
	enc := newEncoder(&req)
	meta := n.State.LocalNodeMetadata()
	if err := enc.Encode(&joinHeader{NodeID: meta.ID, Addr: meta.Addr}); err != nil {
		return err
	}
	if err := enc.Encode(n.State.LocalDelta()); err != nil {
		return err
	}
	_, err := peer.handleStreamBytes(req.Bytes())
	return err
}

// JoinVia mirrors Gossip.join.
func (n *VerifNode) JoinVia(peer *VerifNode) error {
	var req bytes.Buffer
	req.WriteByte(byte(messageTypeJoin))
	req.WriteByte(supportedVersion)
	enc := newEncoder(&req)
	meta := n.State.LocalNodeMetadata()
	if err := enc.Encode(&joinHeader{NodeID: meta.ID, Addr: meta.Addr}); err != nil {
		return err
	}
	if err := enc.Encode(n.State.LocalDelta()); err != nil {
		return err
	}
	if err := enc.Encode(n.State.Digest()); err != nil {
		return err
	}
	resp, err := peer.handleStreamBytes(req.Bytes())
	if err != nil {
		return err
	}
	dec := newDecoder(bytes.NewReader(resp))
	var header joinHeader
	if err := dec.Decode(&header); err != nil {
		return err
	}
	var d delta
	if err := dec.Decode(&d); err != nil {
		return err
	}
	n.State.ApplyDelta(d)
	return nil
}

type bufConn struct {
	r *bytes.Reader
	w bytes.Buffer
}

func (c *bufConn) Read(p []byte) (int, error)         { return c.r.Read(p) }
func (c *bufConn) Write(p []byte) (int, error)        { return c.w.Write(p) }
func (c *bufConn) Close() error                       { return nil }
func (c *bufConn) LocalAddr() net.Addr                { return &net.TCPAddr{} }
func (c *bufConn) RemoteAddr() net.Addr               { return &net.TCPAddr{} }
func (c *bufConn) SetDeadline(t time.Time) error      { return nil }
func (c *bufConn) SetReadDeadline(t time.Time) error  { return nil }
func (c *bufConn) SetWriteDeadline(t time.Time) error { return nil }

func (n *VerifNode) handleStreamBytes(b []byte) ([]byte, error) {
	c := &bufConn{r: bytes.NewReader(b)}
	err := n.SL.handleConn(c)
	return c.w.Bytes(), err
}

func (n *VerifNode) HandleStreamBytes(b []byte) ([]byte, error) { return n.handleStreamBytes(b) }

func VerifEncodeDelta(id, addr string, d delta, max int) ([]byte, error) {
	return encodeDelta(deltaHeader{NodeID: id, Addr: addr}, d, max)
}
func VerifDecodeDelta(b []byte) (string, delta, error) {
	h, d, err := decodeDelta(b)
	return h.NodeID, d, err
}
func VerifEncodeDigest(id, addr string, request bool, d digest, max int) ([]byte, error) {
	return encodeDigest(digestHeader{NodeID: id, Addr: addr, Request: request}, d, max)
}
func VerifDecodeDigest(b []byte) (id, addr string, request bool, d digest, err error) {
	h, dg, err := decodeDigest(b)
	return h.NodeID, h.Addr, h.Request, dg, err
}

var _ = bufio.NewReader

// ---- failure detector (C12) ----

type (
	VerifArrivalWindow   = arrivalWindow
	VerifFailureDetector = accrualFailureDetector
)

func VerifNewArrivalWindow(bootstrap time.Duration, sampleSize int) *arrivalWindow {
	return newArrivalWindow(bootstrap, sampleSize)
}

func VerifNewFailureDetector(bootstrap time.Duration, sampleSize int) *accrualFailureDetector {
	return newAccrualFailureDetector(bootstrap, sampleSize)
}

// ---- codec helpers (C13) ----

// VerifDeltaItemSizes returns the encoded size of the packet header followed by
// the size of every item (node header, entry, entry, ..., node header, ...) of
// the delta, each encoded on its own with the real codec.
func VerifDeltaItemSizes(id, addr string, d delta) (header int, items []int) {
	var buf bytes.Buffer
	buf.WriteByte(byte(messageTypeDelta))
	buf.WriteByte(supportedVersion)
	_ = newEncoder(&buf).Encode(&deltaHeader{NodeID: id, Addr: addr})
	header = buf.Len()
	for _, de := range d {
		var b bytes.Buffer
		_ = newEncoder(&b).Encode(&deltaHeader{NodeID: de.ID, Addr: de.Addr, Entries: len(de.Entries)})
		items = append(items, b.Len())
		for _, e := range de.Entries {
			var b bytes.Buffer
			_ = newEncoder(&b).Encode(e)
			items = append(items, b.Len())
		}
	}
	return header, items
}

// VerifDigestItemSizes is the same for a digest packet.
func VerifDigestItemSizes(id, addr string, request bool, d digest) (header int, items []int) {
	var buf bytes.Buffer
	buf.WriteByte(byte(messageTypeDigest))
	buf.WriteByte(supportedVersion)
	_ = newEncoder(&buf).Encode(&digestHeader{NodeID: id, Addr: addr, Request: request})
	header = buf.Len()
	for _, e := range d {
		var b bytes.Buffer
		_ = newEncoder(&b).Encode(&e)
		items = append(items, b.Len())
	}
	return header, items
}

// ---- stream message builders (C13 hostile input) ----

func VerifEncodeJoin(id, addr string, d delta, dg digest) []byte {
	var req bytes.Buffer
	req.WriteByte(byte(messageTypeJoin))
	req.WriteByte(supportedVersion)
	enc := newEncoder(&req)
	_ = enc.Encode(&joinHeader{NodeID: id, Addr: addr})
	_ = enc.Encode(d)
	_ = enc.Encode(dg)
	return req.Bytes()
}

func VerifEncodeLeave(id, addr string, d delta) []byte {
	var req bytes.Buffer
	req.WriteByte(byte(messageTypeLeave))
	req.WriteByte(supportedVersion)
	enc := newEncoder(&req)
	_ = enc.Encode(&leaveHeader{NodeID: id, Addr: addr})
	_ = enc.Encode(d)
	return req.Bytes()
}

// VerifRawSection is one per-node section of a hand-built delta packet whose
// announced entry count is independent of the entries that follow.
type VerifRawSection struct {
	ID, Addr string
	Count    int
	Entries  []Entry
}

// VerifEncodeDeltaRaw encodes a delta datagram with arbitrary announced counts.
func VerifEncodeDeltaRaw(id, addr string, senderCount int, sections []VerifRawSection) []byte {
	var buf bytes.Buffer
	buf.WriteByte(byte(messageTypeDelta))
	buf.WriteByte(supportedVersion)
	enc := newEncoder(&buf)
	_ = enc.Encode(&deltaHeader{NodeID: id, Addr: addr, Entries: senderCount})
	for _, s := range sections {
		_ = enc.Encode(&deltaHeader{NodeID: s.ID, Addr: s.Addr, Entries: s.Count})
		for _, e := range s.Entries {
			_ = enc.Encode(e)
		}
	}
	return buf.Bytes()
}

// ---- real scheduler on injected listeners (SIMA) ----

// VerifSeed makes the node aware of the given peers (as a digest from a seed
// node would), without the TCP join.
func (g *Gossip) VerifSeed(d digest) { g.state.ApplyDigest(d) }

// VerifCompactLocal runs a local compaction with the given threshold.
func (g *Gossip) VerifCompactLocal(threshold int) { g.state.CompactLocal(threshold) }

// VerifHookFD is a failure detector whose answers the test sets and whose
// SuspicionLevel calls the test can observe (to own the schedule at that point).
type VerifHookFD struct {
	mu     sync.Mutex
	Levels map[string]float64
	Hook   func(point string)
}

func (f *VerifHookFD) Report(string) {}
func (f *VerifHookFD) Remove(string) {}
func (f *VerifHookFD) SuspicionLevel(id string) float64 {
	if f.Hook != nil {
		f.Hook("suspicion:" + id)
	}
	f.mu.Lock()
	defer f.mu.Unlock()
	return f.Levels[id]
}
func (f *VerifHookFD) Set(id string, level float64) {
	f.mu.Lock()
	defer f.mu.Unlock()
	if f.Levels == nil {
		f.Levels = map[string]float64{}
	}
	f.Levels[id] = level
}

// VerifNewStateFD builds a bare cluster state around the given failure detector.
func VerifNewStateFD(id, addr string, fd *VerifHookFD, w Watcher) *clusterState {
	if w == nil {
		w = newNopWatcher()
	}
	return newClusterState(id, addr, fd, newMetrics(), w)
}
