// Package vlib is the common layer of the verification harness: a recording
// draw source over rapid (so that every failing case can be replayed without
// rapid from a plain JSON file), per-process statistics for evidence files and
// the known-findings lookup.
package vlib

import (
	"encoding/json"
	"fmt"
	"hash/fnv"
	"os"
	"path/filepath"
	"runtime/debug"
	"sort"
	"strings"
	"sync"
	"testing"
	"testing/synctest"
	"time"

	"pgregory.net/rapid"
)

// Case is one generated (or replayed) case of a property.
type Case struct {
	rt *rapid.T   // generation mode
	tt *testing.T // replay mode

	Property string
	Test     string

	draws  []json.RawMessage
	replay []json.RawMessage
	pos    int

	steps      []string
	classes    map[string]int
	nontrivial bool
	known      map[string]string
	written    bool
	fixed      bool // a hand-written deterministic regression case (no draws)
	Header     map[string]any
}

// Replaying reports whether this case is replayed from a file.
func (c *Case) Replaying() bool { return c.rt == nil }

func (c *Case) record(v any) {
	b, err := json.Marshal(v)
	if err != nil {
		panic(fmt.Sprintf("vlib: cannot record draw: %v", err))
	}
	c.draws = append(c.draws, b)
}

type replayDiverged string

func (c *Case) next(v any) {
	if c.pos >= len(c.replay) {
		panic(replayDiverged(fmt.Sprintf("replay file exhausted after %d draws", c.pos)))
	}
	if err := json.Unmarshal(c.replay[c.pos], v); err != nil {
		panic(replayDiverged(fmt.Sprintf("replay draw %d: %v", c.pos, err)))
	}
	c.draws = append(c.draws, c.replay[c.pos])
	c.pos++
}

// Draw draws a value from g (recording it), or returns the recorded value when
// replaying.
func Draw[T any](c *Case, g *rapid.Generator[T], label string) T {
	if c.rt != nil {
		v := g.Draw(c.rt, label)
		c.record(v)
		return v
	}
	var v T
	c.next(&v)
	return v
}

// Int draws an integer in [lo, hi].
func (c *Case) Int(label string, lo, hi int) int {
	if hi < lo {
		panic(fmt.Sprintf("vlib: Int(%s) empty range [%d,%d]", label, lo, hi))
	}
	if c.rt != nil {
		v := rapid.IntRange(lo, hi).Draw(c.rt, label)
		c.record(v)
		return v
	}
	var v int
	c.next(&v)
	if v < lo || v > hi {
		panic(replayDiverged(fmt.Sprintf("replay draw %s=%d outside [%d,%d]", label, v, lo, hi)))
	}
	return v
}

// Int64 draws an int64 in [lo, hi].
func (c *Case) Int64(label string, lo, hi int64) int64 {
	if c.rt != nil {
		v := rapid.Int64Range(lo, hi).Draw(c.rt, label)
		c.record(v)
		return v
	}
	var v int64
	c.next(&v)
	return v
}

// Bool draws a boolean.
func (c *Case) Bool(label string) bool { return c.Int(label, 0, 1) == 1 }

// Chance is true with probability about num/den.
func (c *Case) Chance(label string, num, den int) bool { return c.Int(label, 0, den-1) < num }

// Pick draws an index into a collection of n elements.
func (c *Case) Pick(label string, n int) int { return c.Int(label, 0, n-1) }

// OneOf draws one of the given strings.
func (c *Case) OneOf(label string, xs ...string) string { return xs[c.Pick(label, len(xs))] }

// Dur draws one of the given durations.
func (c *Case) Dur(label string, xs ...time.Duration) time.Duration {
	return xs[c.Pick(label, len(xs))]
}

// Weighted draws a key of w with probability proportional to its weight
// (keys in the given order so the draw is stable).
func (c *Case) Weighted(label string, names []string, weights []int) string {
	total := 0
	for _, w := range weights {
		total += w
	}
	x := c.Int(label, 0, total-1)
	for i, w := range weights {
		if x < w {
			return names[i]
		}
		x -= w
	}
	return names[len(names)-1]
}

// Perm draws a permutation of 0..n-1.
func (c *Case) Perm(label string, n int) []int {
	p := make([]int, n)
	for i := range p {
		p[i] = i
	}
	for i := n - 1; i > 0; i-- {
		j := c.Int(label, 0, i)
		// shrink target 0 must be the identity: swap with i-j.
		j = i - j
		p[i], p[j] = p[j], p[i]
	}
	return p
}

// Str draws a string of at most max runes from rapid's string generator.
func (c *Case) Str(label string, max int) string {
	return Draw(c, rapid.StringN(0, max, -1), label)
}

// Bytes draws a byte slice of at most max bytes.
func (c *Case) Bytes(label string, max int) []byte {
	return Draw(c, rapid.SliceOfN(rapid.Byte(), 0, max), label)
}

// Stepf appends a line to the human readable history of the case.
func (c *Case) Stepf(format string, a ...any) {
	if len(c.steps) < 5000 {
		c.steps = append(c.steps, fmt.Sprintf(format, a...))
	}
}

// Class counts the case (once per call) under a histogram class.
func (c *Case) Class(name string) { c.classes[name]++ }

// NonTrivial marks the case as non-trivial by the property's stated rule.
func (c *Case) NonTrivial() { c.nontrivial = true }

// Known records that a listed known finding was hit by this case. It returns
// false (and the caller must report a violation) when the finding is not
// listed as known for this property.
func (c *Case) Known(id, what string) bool {
	if !KnownListed(c.Property, id) {
		return false
	}
	c.known[id] = what
	return true
}

// Fatalf reports a violation: it writes the replay file and fails the case.
func (c *Case) Fatalf(format string, a ...any) {
	msg := fmt.Sprintf(format, a...)
	c.writeReplay(msg)
	if c.rt != nil {
		c.rt.Fatalf("%s", msg)
	} else {
		c.tt.Fatalf("VERIF-FAIL %s: %s", c.Property, msg)
	}
	panic("unreachable")
}

// Harnessf aborts the case because the harness (not the code under test)
// failed: the driver reports "could not decide", never a violation.
func (c *Case) Harnessf(format string, a ...any) {
	msg := "VERIF-HARNESS-ERROR " + fmt.Sprintf(format, a...)
	c.written = true
	fmt.Println(msg)
	if c.rt != nil {
		c.rt.Fatalf("%s", msg)
	} else {
		c.tt.Fatalf("%s", msg)
	}
	panic("unreachable")
}

// Logf logs through the test.
func (c *Case) Logf(format string, a ...any) {
	if c.rt != nil {
		c.rt.Logf(format, a...)
	} else {
		c.tt.Logf(format, a...)
	}
}

// ReplayFile is the on-disk form of a failing case.
type ReplayFile struct {
	Property string            `json:"property"`
	Pkg      string            `json:"pkg"`
	Test     string            `json:"test"`
	Message  string            `json:"message"`
	Header   map[string]any    `json:"header,omitempty"`
	Steps    []string          `json:"steps"`
	Draws    []json.RawMessage `json:"draws"`
}

func (c *Case) writeReplay(msg string) {
	c.written = true
	if c.Replaying() && !c.fixed {
		return
	}
	out := os.Getenv("VERIF_REPLAY_OUT")
	if out == "" {
		return
	}
	out = strings.ReplaceAll(out, "{test}", c.Test)
	rf := ReplayFile{Property: c.Property, Pkg: os.Getenv("VERIF_PKG"), Test: c.Test, Message: msg, Header: c.Header, Steps: c.steps, Draws: c.draws}
	b, _ := json.MarshalIndent(rf, "", " ")
	_ = os.MkdirAll(filepath.Dir(out), 0o755)
	tmp := out + ".tmp"
	if err := os.WriteFile(tmp, b, 0o644); err == nil {
		_ = os.Rename(tmp, out)
		fmt.Printf("VERIF-REPLAY %s %s\n", c.Property, out)
	}
}

// ---------------------------------------------------------------------------
// statistics

type testStats struct {
	Property   string             `json:"property"`
	Test       string             `json:"test"`
	Cases      int                `json:"cases"`
	NonTrivial int                `json:"nontrivial"`
	Hashes     []string           `json:"hashes"`
	Classes    map[string]int     `json:"classes"`
	Samples    []any              `json:"samples"`
	Known      map[string]int     `json:"known"`
	KnownWhat  map[string]string  `json:"known_what"`
	Extra      map[string]float64 `json:"extra"`
	Rule       string             `json:"rule"`
	hashes     map[uint64]struct{}
}

var (
	statsMu sync.Mutex
	stats   = map[string]*testStats{}
)

func getStats(prop, test string) *testStats {
	s, ok := stats[test]
	if !ok {
		s = &testStats{Property: prop, Test: test, Classes: map[string]int{}, Known: map[string]int{}, KnownWhat: map[string]string{}, Extra: map[string]float64{}, hashes: map[uint64]struct{}{}}
		stats[test] = s
	}
	return s
}

// AddExtra accumulates a named number into the evidence of a test.
func AddExtra(prop, test, key string, v float64) {
	statsMu.Lock()
	defer statsMu.Unlock()
	getStats(prop, test).Extra[key] += v
}

// SetRule records the generation / non-triviality rule of a test.
func SetRule(prop, test, rule string) {
	statsMu.Lock()
	defer statsMu.Unlock()
	getStats(prop, test).Rule = rule
}

func (c *Case) commit() {
	statsMu.Lock()
	defer statsMu.Unlock()
	s := getStats(c.Property, c.Test)
	s.Cases++
	for k, v := range c.classes {
		s.Classes[k] += v
	}
	for k, v := range c.known {
		s.Known[k]++
		s.KnownWhat[k] = v
	}
	if c.nontrivial {
		s.NonTrivial++
		h := fnv.New64a()
		for _, d := range c.draws {
			h.Write(d)
			h.Write([]byte{0})
		}
		s.hashes[h.Sum64()] = struct{}{}
		if len(s.Samples) < 3 {
			steps := c.steps
			if len(steps) > 80 {
				steps = append(append([]string{}, steps[:80]...), fmt.Sprintf("... (%d more steps)", len(c.steps)-80))
			}
			s.Samples = append(s.Samples, map[string]any{"header": c.Header, "steps": steps})
		}
	}
}

// Main is the TestMain body of every harness package: it runs the tests and
// writes the statistics file named by VERIF_STATS_OUT.
func Main(m *testing.M) {
	code := m.Run()
	WriteStats()
	os.Exit(code)
}

// WriteStats writes the statistics file (also called from fuzz targets).
func WriteStats() {
	out := os.Getenv("VERIF_STATS_OUT")
	if out == "" {
		return
	}
	statsMu.Lock()
	defer statsMu.Unlock()
	var list []*testStats
	var names []string
	for n := range stats {
		names = append(names, n)
	}
	sort.Strings(names)
	for _, n := range names {
		s := stats[n]
		s.Hashes = s.Hashes[:0]
		for h := range s.hashes {
			s.Hashes = append(s.Hashes, fmt.Sprintf("%016x", h))
		}
		sort.Strings(s.Hashes)
		list = append(list, s)
	}
	b, _ := json.Marshal(list)
	_ = os.MkdirAll(filepath.Dir(out), 0o755)
	_ = os.WriteFile(out, b, 0o644)
}

// ---------------------------------------------------------------------------
// running

func newCase(prop, test string) *Case {
	return &Case{Property: prop, Test: test, classes: map[string]int{}, known: map[string]string{}, Header: map[string]any{}}
}

func isRapidControl(r any) bool {
	switch fmt.Sprintf("%T", r) {
	case "rapid.invalidData", "rapid.stopTest", "*rapid.testError":
		return true
	}
	return false
}

func (c *Case) finish() {
	r := recover()
	if r != nil {
		if _, ok := r.(replayDiverged); ok {
			panic(r)
		}
		if !c.written && !isRapidControl(r) {
			c.writeReplay(fmt.Sprintf("panic: %v\n%s", r, debug.Stack()))
		}
		if fmt.Sprintf("%T", r) != "rapid.invalidData" {
			c.commit()
		}
		panic(r)
	}
	c.commit()
}

// Run runs prop as a rapid property, or replays the file named by VERIF_REPLAY.
func Run(t *testing.T, property string, prop func(c *Case)) {
	run(t, property, prop, false)
}

// RunSync is Run inside a testing/synctest bubble (virtual clock).
func RunSync(t *testing.T, property string, prop func(c *Case)) {
	run(t, property, prop, true)
}

func run(t *testing.T, property string, prop func(c *Case), bubble bool) {
	test := t.Name()
	statsMu.Lock()
	getStats(property, test)
	statsMu.Unlock()
	if path := os.Getenv("VERIF_REPLAY"); path != "" {
		replayFile(t, property, test, path, prop, bubble)
		return
	}
	// Regression replays first (seconds-long replay tier).
	if dir := os.Getenv("VERIF_REGRESS_DIR"); dir != "" {
		files, _ := filepath.Glob(filepath.Join(dir, property, "*.json"))
		sort.Strings(files)
		for _, f := range files {
			replayFile(t, property, test, f, prop, bubble)
		}
	}
	if os.Getenv("VERIF_REGRESS_ONLY") != "" {
		return
	}
	rapid.Check(t, func(rt *rapid.T) {
		c := newCase(property, test)
		c.rt = rt
		if bubble {
			rapid.SyncTest(rt, func(rt2 *rapid.T) {
				c.rt = rt2
				defer c.finish()
				prop(c)
			})
		} else {
			defer c.finish()
			prop(c)
		}
	})
}

func replayFile(t *testing.T, property, test, path string, prop func(c *Case), bubble bool) {
	b, err := os.ReadFile(path)
	if err != nil {
		t.Fatalf("VERIF-HARNESS-ERROR cannot read replay file: %v", err)
	}
	var rf ReplayFile
	if err := json.Unmarshal(b, &rf); err != nil {
		t.Fatalf("VERIF-HARNESS-ERROR bad replay file %s: %v", path, err)
	}
	if rf.Test != test {
		return // belongs to another test of the same property
	}
	body := func(tt *testing.T) {
		c := newCase(property, test)
		c.tt = tt
		c.replay = rf.Draws
		defer func() {
			r := recover()
			if r == nil {
				c.commit()
				statsMu.Lock()
				getStats(property, test).Classes["replayed-file"]++
				statsMu.Unlock()
				return
			}
			if d, ok := r.(replayDiverged); ok {
				if os.Getenv("VERIF_REPLAY") == "" {
					// a saved regression whose draw log no longer matches the generator
					fmt.Printf("VERIF-STALE-REGRESSION %s: %s\n", path, string(d))
					statsMu.Lock()
					getStats(property, test).Classes["stale-regression-file"]++
					statsMu.Unlock()
					return
				}
				tt.Fatalf("VERIF-HARNESS-ERROR replay diverged (%s): %s", path, string(d))
			}
			tt.Fatalf("VERIF-FAIL %s: panic: %v\n%s", property, r, debug.Stack())
		}()
		prop(c)
	}
	ok := t.Run("replay/"+filepath.Base(path), func(tt *testing.T) {
		if bubble {
			synctest.Test(tt, body)
		} else {
			body(tt)
		}
	})
	if !ok {
		fmt.Printf("VERIF-REPLAY-FAILED %s %s\n", property, path)
	}
}

// ---------------------------------------------------------------------------
// known findings

type knownEntry struct {
	ID       string `json:"id"`
	Property string `json:"property"`
	Status   string `json:"status"`
	What     string `json:"what"`
}

var (
	knownOnce sync.Once
	knownList []knownEntry
)

// KnownListed reports whether finding id is listed with status "known" for the property.
func KnownListed(property, id string) bool {
	knownOnce.Do(func() {
		p := os.Getenv("VERIF_KNOWN_FINDINGS")
		if p == "" {
			return
		}
		b, err := os.ReadFile(p)
		if err != nil {
			return
		}
		var doc struct {
			Findings []knownEntry `json:"findings"`
		}
		if json.Unmarshal(b, &doc) == nil {
			knownList = doc.Findings
		}
	})
	for _, k := range knownList {
		if k.ID == id && k.Status == "known" && (k.Property == property || strings.Contains(k.Property, property)) {
			return true
		}
	}
	return false
}

// Fixed runs one hand-written deterministic case (a regression scenario of a
// repaired defect). It is counted like a generated case; a failure is reported
// like any other violation and the file it writes replays this same test.
func Fixed(t *testing.T, property string, bubble bool, prop func(c *Case)) {
	test := t.Name()
	statsMu.Lock()
	getStats(property, test)
	statsMu.Unlock()
	body := func(tt *testing.T) {
		c := newCase(property, test)
		c.tt, c.fixed = tt, true
		c.NonTrivial()
		c.Class("fixed-regression-case")
		defer func() {
			if r := recover(); r != nil {
				if !c.written {
					c.writeReplay(fmt.Sprintf("panic: %v\n%s", r, debug.Stack()))
				}
				c.commit()
				tt.Fatalf("VERIF-FAIL %s: panic: %v\n%s", property, r, debug.Stack())
			}
			c.commit()
		}()
		prop(c)
	}
	if bubble {
		synctest.Test(t, body)
	} else {
		body(t)
	}
}
