module verif/harness

go 1.25.5

require (
	github.com/andydunstall/piko v0.0.0
	pgregory.net/rapid v1.3.0
)

replace github.com/andydunstall/piko => /repo
