package pure

import (
	"fmt"
	"sort"
	"strings"
	"sync/atomic"
	"testing"
	"time"

	"github.com/andydunstall/piko/pkg/log"
	"github.com/andydunstall/piko/server/cluster"
	"github.com/andydunstall/piko/server/upstream"

	"verif/harness/vlib"
)

// TestC15Window ("... sequentially and concurrently"): owns the schedule at the
// points where the upstream manager calls out of itself (its metrics, the
// cluster state's endpoint subscribers). One add / remove / select is parked at a
// drawn call-out while a second one runs on another goroutine. Whatever the
// manager lets the second one do inside that window, what the two operations
// returned and what the manager answers afterwards (registry, advertised counts,
// the set of upstreams selection cycles through) must be what running them one
// after the other, in one of the two orders, gives.

type c15wOp struct {
	kind string // add, remove, select
	ep   string
	id   int
}

func (o c15wOp) String() string { return fmt.Sprintf("%s(%s#%d)", o.kind, o.ep, o.id) }

type c15wWorld struct {
	cs   *cluster.State
	mgr  *upstream.LoadBalancedManager
	ups  map[string]*fakeUp
	hook atomic.Value // func(string)
	res  [2]string
}

func (w *c15wWorld) up(ep string, id int) *fakeUp {
	k := fmt.Sprintf("%s#%d", ep, id)
	if w.ups[k] == nil {
		w.ups[k] = &fakeUp{ep: ep, id: id}
	}
	return w.ups[k]
}

func newC15wWorld(setup []c15wOp) *c15wWorld {
	w := &c15wWorld{ups: map[string]*fakeUp{}}
	w.cs = cluster.NewState(&cluster.Node{ID: "local", ProxyAddr: "p", AdminAddr: "a"}, log.NewNopLogger())
	w.mgr = upstream.NewLoadBalancedManager(w.cs, nil)
	call := func(point string) {
		if h, _ := w.hook.Load().(func(string)); h != nil {
			h(point)
		}
	}
	w.mgr.VerifHookMetrics(call)
	w.cs.OnLocalEndpointUpdate(func(ep string) { call("endpoint-update:" + ep) })
	// every upstream object exists before anything runs concurrently
	for _, ep := range c15Eps[:2] {
		for id := 0; id < 4; id++ {
			w.up(ep, id)
		}
	}
	for _, o := range setup {
		w.run(o, nil)
	}
	return w
}

func (w *c15wWorld) run(o c15wOp, res *string) {
	switch o.kind {
	case "add":
		w.mgr.AddConn(w.up(o.ep, o.id))
	case "remove":
		w.mgr.RemoveConn(w.up(o.ep, o.id))
	case "select":
		u, ok := w.mgr.Select(o.ep, false)
		if res != nil {
			if u == nil {
				*res = fmt.Sprintf("select(%s) -> nil, %v", o.ep, ok)
			} else {
				*res = fmt.Sprintf("select(%s) -> %v, %v", o.ep, u, ok)
			}
		}
	}
}

func (w *c15wWorld) view() string {
	var b strings.Builder
	fmt.Fprintf(&b, "results: %s ; %s\n", w.res[0], w.res[1])
	fmt.Fprintf(&b, "registry: %v\n", w.mgr.Endpoints())
	adv := map[string]int{}
	for ep, n := range w.cs.LocalNode().Endpoints {
		adv[ep] = n
	}
	fmt.Fprintf(&b, "advertised: %v\n", adv)
	for _, ep := range c15Eps[:2] {
		seen := map[string]int{}
		for i := 0; i < 8; i++ {
			u, ok := w.mgr.Select(ep, false)
			switch {
			case !ok:
				seen["(none)"]++
			case u == nil:
				seen["(nil, true)"]++
			default:
				seen[fmt.Sprint(u)]++
			}
		}
		var ks []string
		for k, n := range seen {
			ks = append(ks, fmt.Sprintf("%s x%d", k, n))
		}
		sort.Strings(ks)
		fmt.Fprintf(&b, "8 selections for %s: %v\n", ep, ks)
	}
	return b.String()
}

func TestC15Window(t *testing.T) {
	vlib.SetRule("C15", "TestC15Window", "schedule-owning test of the real upstream manager on a real cluster state: after a drawn sequential prefix of 0-6 add/remove operations over 2 endpoints x 4 upstream objects, two drawn operations (add, remove - also of an unregistered or already removed object -, select) are overlapped: the first is parked at its k-th call-out (metrics gauge/counter update or the cluster state's endpoint-update notification) while the second runs on another goroutine for up to 20 ms; oracle: what the two operations returned, the registry, the advertised counts and the multiset of upstreams returned by 8 further selections per endpoint equal those of running the two operations sequentially in one of the two orders on an identically built manager; a second operation that never returns is a deadlock; non-trivial = the first operation reached the parking point and both touch the same endpoint")
	vlib.Run(t, "C15", func(c *vlib.Case) {
		drawOp := func(tag string, kinds []string, weights []int) c15wOp {
			return c15wOp{kind: c.Weighted(tag+"Kind", kinds, weights), ep: c15Eps[c.Pick(tag+"Ep", 2)], id: c.Int(tag+"Id", 0, 3)}
		}
		var setup []c15wOp
		for i, n := 0, c.Int("setup", 0, 6); i < n; i++ {
			setup = append(setup, drawOp("setup", []string{"add", "remove"}, []int{3, 1}))
		}
		kinds, weights := []string{"add", "remove", "select"}, []int{4, 4, 2}
		op1, op2 := drawOp("op1", kinds, weights), drawOp("op2", kinds, weights)
		if c.Chance("sameEndpoint", 2, 3) {
			op2.ep = op1.ep
		}
		if op1.kind != "select" && op2.kind != "select" && op1.ep == op2.ep && op1.id == op2.id && op1.kind == "add" && op2.kind == "add" {
			op2.id = (op2.id + 1) % 4 // the same object is never added twice at once (one connection, one AddConn)
		}
		// an object is added at most once at a time: skip adds of registered objects in
		// the prefix, and make the overlapped adds fresh objects
		reg := map[string]bool{}
		var prefix []c15wOp
		for _, o := range setup {
			k := fmt.Sprintf("%s#%d", o.ep, o.id)
			if o.kind == "add" && reg[k] {
				continue
			}
			reg[k] = o.kind == "add"
			prefix = append(prefix, o)
		}
		for _, o := range []*c15wOp{&op1, &op2} {
			if o.kind == "add" {
				for i := 0; i < 4 && reg[fmt.Sprintf("%s#%d", o.ep, o.id)]; i++ {
					o.id = (o.id + 1) % 4
				}
				if reg[fmt.Sprintf("%s#%d", o.ep, o.id)] {
					o.kind = "select"
				} else {
					reg[fmt.Sprintf("%s#%d", o.ep, o.id)] = true
				}
			}
		}
		parkAt := c.Int("parkAt", 0, 2)
		c.Header["prefix"], c.Header["op1"], c.Header["op2"], c.Header["parkAt"] = fmt.Sprint(prefix), op1.String(), op2.String(), parkAt

		seq := func(first, second c15wOp, firstIdx int) string {
			w := newC15wWorld(prefix)
			w.run(first, &w.res[firstIdx])
			w.run(second, &w.res[1-firstIdx])
			return w.view()
		}
		v12, v21 := seq(op1, op2, 0), seq(op2, op1, 1)

		w := newC15wWorld(prefix)
		var calls atomic.Int64
		var parked atomic.Bool
		done2 := make(chan struct{})
		launch := func() {
			go func() {
				defer close(done2)
				w.run(op2, &w.res[1])
			}()
		}
		w.hook.Store(func(point string) {
			if calls.Add(1)-1 != int64(parkAt) || !parked.CompareAndSwap(false, true) {
				return
			}
			c.Stepf("%v parked at call-out %d (%s); %v starts on another goroutine", op1, parkAt, point, op2)
			launch()
			select {
			case <-done2:
				c.Class("second-op-completed-inside-window")
			case <-time.After(20 * time.Millisecond):
			}
		})
		w.run(op1, &w.res[0])
		if !parked.CompareAndSwap(false, true) {
			if op1.ep == op2.ep {
				c.NonTrivial()
			}
		} else {
			c.Class("first-op-made-fewer-call-outs")
			launch()
		}
		select {
		case <-done2:
		case <-time.After(20 * time.Second):
			c.Fatalf("C15: deadlock: %v, started while %v was at a call-out, has not returned after 20 s", op2, op1)
		}
		w.hook.Store((func(string))(nil))
		got := w.view()
		if got != v12 && got != v21 {
			c.Fatalf("C15: overlapping %v (parked at its call-out %d) with %v after %v gives an outcome that neither sequential order produces.\n--- overlapped:\n%s--- %v then %v:\n%s--- %v then %v:\n%s", op1, parkAt, op2, prefix, got, op1, op2, v12, op2, op1, v21)
		}
	})
}
