package pure

import (
	"fmt"
	"net"
	"reflect"
	"runtime"
	"sync"
	"sync/atomic"
	"testing"

	"github.com/andydunstall/piko/pkg/log"
	"github.com/andydunstall/piko/server/cluster"
	"github.com/andydunstall/piko/server/upstream"

	"verif/harness/vlib"
)

// C15: upstream selection is valid and round-robin fair.

type fakeUp struct {
	ep string
	id int
}

func (f *fakeUp) EndpointID() string      { return f.ep }
func (f *fakeUp) Dial() (net.Conn, error) { return nil, fmt.Errorf("fake") }
func (f *fakeUp) Forward() bool           { return false }
func (f *fakeUp) String() string          { return fmt.Sprintf("%s#%d", f.ep, f.id) }

var c15Eps = []string{"e0", "e1", "E1", "e10"} // near-miss names: a prefix and a case variant

type c15Model struct {
	members map[string][]*fakeUp // registered, in registration order
	// selections of an endpoint since its member set last changed
	window map[string][]*fakeUp
}

func (m *c15Model) has(u *fakeUp) bool {
	for _, x := range m.members[u.ep] {
		if x == u {
			return true
		}
	}
	return false
}

func checkWindow(c *vlib.Case, ep string, members, sel []*fakeUp) {
	n := len(members)
	if n == 0 || len(sel) < n {
		return
	}
	// the last n selections must be a permutation of the members
	last := sel[len(sel)-n:]
	seen := map[*fakeUp]bool{}
	for _, u := range last {
		if seen[u] {
			c.Fatalf("C15 fairness: with %d stable upstreams of %s the last %d selections %v repeat %v (another one is starved)", n, ep, n, last, u)
		}
		seen[u] = true
	}
}

func TestC15Select(t *testing.T) {
	vlib.SetRule("C15", "TestC15Select", "rapid state machine of add/remove(also repeated, unknown)/select over 4 endpoints (incl. a prefix and a case variant of another) on the real LoadBalancedManager with a generated remote routing table; model = ordered member lists; non-trivial = a removal at or before the round-robin cursor (or of the only/last member) followed by >= n selections of that endpoint")
	vlib.Run(t, "C15", func(c *vlib.Case) {
		cs := cluster.NewState(&cluster.Node{ID: "local", ProxyAddr: "p", AdminAddr: "a"}, log.NewNopLogger())
		mgr := upstream.NewLoadBalancedManager(cs, nil)
		// remote table
		remote := map[string]bool{} // endpoint -> some active remote advertises it
		nRemote := c.Int("remotes", 0, 3)
		for i := 0; i < nRemote; i++ {
			st := []cluster.NodeStatus{cluster.NodeStatusActive, cluster.NodeStatusActive, cluster.NodeStatusUnreachable, cluster.NodeStatusLeft}[c.Pick("status", 4)]
			n := &cluster.Node{ID: fmt.Sprintf("r%d", i), Status: st, ProxyAddr: "rp", AdminAddr: "ra", Endpoints: map[string]int{}}
			for _, e := range c15Eps {
				cnt := c.Int("remoteCount", 0, 2) - 1 // -1: absent, 0: zero count, 1: one
				if cnt >= 0 {
					n.Endpoints[e] = cnt
				}
				if cnt > 0 && st == cluster.NodeStatusActive {
					remote[e] = true
				}
			}
			cs.AddNode(n)
			c.Stepf("remote %s status=%s endpoints=%v", n.ID, st, n.Endpoints)
		}
		m := &c15Model{members: map[string][]*fakeUp{}, window: map[string][]*fakeUp{}}
		var all []*fakeUp
		removedAtCursor := map[string]bool{}
		selSince := map[string]int{}
		steps := c.Int("steps", 1, 50)
		for i := 0; i < steps; i++ {
			switch c.Weighted("op", []string{"add", "remove", "select", "removeUnknown"}, []int{4, 4, 8, 1}) {
			case "add":
				u := &fakeUp{ep: c.OneOf("ep", c15Eps...), id: len(all)}
				all = append(all, u)
				c.Stepf("add %v", u)
				mgr.AddConn(u)
				m.members[u.ep] = append(m.members[u.ep], u)
				m.window[u.ep] = nil
			case "remove":
				if len(all) == 0 {
					continue
				}
				u := all[c.Pick("u", len(all))]
				c.Stepf("remove %v (registered=%v)", u, m.has(u))
				if m.has(u) {
					// position relative to the cursor: the cursor is the index of the
					// member that the next selection will return.
					mem := m.members[u.ep]
					idx := 0
					for j, x := range mem {
						if x == u {
							idx = j
						}
					}
					cur := 0
					if w := m.window[u.ep]; len(w) > 0 {
						lastSel := w[len(w)-1]
						for j, x := range mem {
							if x == lastSel {
								cur = (j + 1) % len(mem)
							}
						}
					}
					if idx <= cur || len(mem) == 1 || idx == len(mem)-1 {
						removedAtCursor[u.ep] = true
						selSince[u.ep] = 0
						c.Class("remove-at-or-before-cursor-or-last")
					}
					var nm []*fakeUp
					for _, x := range mem {
						if x != u {
							nm = append(nm, x)
						}
					}
					m.members[u.ep] = nm
					m.window[u.ep] = nil
				} else {
					c.Class("repeated-removal")
				}
				mgr.RemoveConn(u)
			case "removeUnknown":
				u := &fakeUp{ep: c.OneOf("ep", c15Eps...), id: -1}
				c.Stepf("remove never-registered %v", u)
				mgr.RemoveConn(u)
			case "select":
				ep := c.OneOf("ep", append(c15Eps, "nope")...)
				allow := c.Bool("allowForward")
				got, ok := mgr.Select(ep, allow)
				c.Stepf("select(%s, allowForward=%v) -> %v,%v", ep, allow, got, ok)
				mem := m.members[ep]
				if len(mem) > 0 {
					if !ok || got == nil {
						c.Fatalf("C15: select(%s) found nothing although %v are registered", ep, mem)
					}
					fu, isFake := got.(*fakeUp)
					if !isFake {
						c.Fatalf("C15: select(%s) returned a remote node although local upstreams %v are registered", ep, mem)
					}
					if fu.ep != ep || !m.has(fu) {
						c.Fatalf("C15: select(%s) returned %v which is not currently registered for it (registered: %v)", ep, fu, mem)
					}
					m.window[ep] = append(m.window[ep], fu)
					checkWindow(c, ep, mem, m.window[ep])
					selSince[ep]++
					if removedAtCursor[ep] && selSince[ep] >= len(mem) {
						c.NonTrivial()
					}
				} else {
					if ok && got == nil {
						c.Fatalf("C15: select(%s) returned ok with a nil upstream", ep)
					}
					if !allow && ok {
						c.Fatalf("C15: select(%s, allowForward=false) returned %v with no local upstream registered", ep, got)
					}
					if allow {
						if ok != remote[ep] {
							c.Fatalf("C15: select(%s, allowForward=true) ok=%v but active remote with upstreams exists=%v", ep, ok, remote[ep])
						}
						if ok && (!got.Forward() || got.EndpointID() != ep) {
							c.Fatalf("C15: select(%s) remote result forward=%v endpoint=%s", ep, got.Forward(), got.EndpointID())
						}
						if ok {
							c.Class("selected-remote")
						}
					}
				}
			}
			want := map[string]int{}
			for e, mem := range m.members {
				if len(mem) > 0 {
					want[e] = len(mem)
				}
			}
			if got := mgr.Endpoints(); !reflect.DeepEqual(got, want) {
				c.Fatalf("C15: manager endpoints %v, model %v", got, want)
			}
		}
	})
}

// The bare round-robin helper with arbitrary interleavings of Add/Remove/Next.
func TestC15Balancer(t *testing.T) {
	vlib.SetRule("C15", "TestC15Balancer", "add/remove/next sequences on the bare loadBalancer vs an ordered list model with an explicit cursor-free oracle (window permutation); non-trivial = removal followed by >= n selections")
	vlib.Run(t, "C15", func(c *vlib.Case) {
		lb := &upstream.VerifLoadBalancer{}
		var mem, all, win []*fakeUp
		removed := false
		since := 0
		steps := c.Int("steps", 1, 60)
		for i := 0; i < steps; i++ {
			switch c.Weighted("op", []string{"add", "remove", "next"}, []int{3, 3, 8}) {
			case "add":
				u := &fakeUp{ep: "e", id: len(all)}
				all = append(all, u)
				lb.Add(u)
				mem = append(mem, u)
				win = nil
				c.Stepf("add %v", u)
			case "remove":
				if len(all) == 0 {
					continue
				}
				u := all[c.Pick("u", len(all))]
				var nm []*fakeUp
				was := false
				for _, x := range mem {
					if x != u {
						nm = append(nm, x)
					} else {
						was = true
					}
				}
				empty := lb.Remove(u)
				c.Stepf("remove %v (registered=%v) -> empty=%v", u, was, empty)
				mem = nm
				if was {
					win = nil
					removed = true
					since = 0
				}
				if empty != (len(mem) == 0) {
					c.Fatalf("C15: Remove reported empty=%v with %d members left", empty, len(mem))
				}
			case "next":
				got := lb.Next()
				c.Stepf("next -> %v", got)
				if len(mem) == 0 {
					if got != nil {
						c.Fatalf("C15: Next returned %v from an empty balancer", got)
					}
					continue
				}
				fu, _ := got.(*fakeUp)
				ok := false
				for _, x := range mem {
					if x == fu {
						ok = true
					}
				}
				if !ok {
					c.Fatalf("C15: Next returned %v, not a current member of %v", got, mem)
				}
				win = append(win, fu)
				checkWindow(c, "e", mem, win)
				since++
				if removed && since >= len(mem) {
					c.NonTrivial()
				}
			}
			if lb.VerifLen() != len(mem) {
				c.Fatalf("C15: balancer holds %d upstreams, model %d", lb.VerifLen(), len(mem))
			}
		}
	})
}

// Concurrent add/remove/select: no panic, and every selection returns an
// upstream that could have been registered at some instant of the call.
func TestC15Concurrent(t *testing.T) {
	vlib.SetRule("C15", "TestC15Concurrent", "2-6 goroutines each running a generated add/remove/select list on one manager with generated yields; oracle: a selected upstream's registration interval overlaps the call interval (logical clock), final registry equals the model; non-trivial = >= 2 goroutines touch the same endpoint with at least one removal")
	vlib.Run(t, "C15", func(c *vlib.Case) {
		cs := cluster.NewState(&cluster.Node{ID: "local", ProxyAddr: "p", AdminAddr: "a"}, log.NewNopLogger())
		mgr := upstream.NewLoadBalancedManager(cs, nil)
		type op struct {
			kind  string
			ep    string
			own   int // index into the goroutine's own upstreams
			yield int
		}
		G := c.Int("goroutines", 2, 6)
		progs := make([][]op, G)
		epTouch := map[string]map[int]bool{}
		anyRemove := false
		for g := 0; g < G; g++ {
			n := c.Int("ops", 1, 12)
			adds := 0
			for i := 0; i < n; i++ {
				k := c.Weighted("op", []string{"add", "remove", "select"}, []int{3, 3, 5})
				o := op{kind: k, ep: c.OneOf("ep", "e0", "e1"), yield: c.Int("yield", 0, 2)}
				if k == "add" {
					adds++
				}
				if k == "remove" {
					if adds == 0 {
						o.kind = "select"
					} else {
						o.own = c.Pick("own", adds)
						anyRemove = true
					}
				}
				if epTouch[o.ep] == nil {
					epTouch[o.ep] = map[int]bool{}
				}
				epTouch[o.ep][g] = true
				progs[g] = append(progs[g], o)
			}
			c.Stepf("g%d: %v", g, progs[g])
		}
		for _, gs := range epTouch {
			if len(gs) >= 2 && anyRemove {
				c.NonTrivial()
			}
		}
		var clock atomic.Int64
		type life struct {
			addStart  int64
			removeEnd int64 // 0 = never removed
		}
		var mu sync.Mutex
		lives := map[*fakeUp]*life{}
		type selRec struct {
			start, end int64
			ep         string
			got        upstream.Upstream
			ok         bool
		}
		var sels []selRec
		var wg sync.WaitGroup
		var panics atomic.Value
		for g := 0; g < G; g++ {
			wg.Add(1)
			go func(g int) {
				defer wg.Done()
				defer func() {
					if r := recover(); r != nil {
						panics.Store(fmt.Sprintf("goroutine %d: %v", g, r))
					}
				}()
				var own []*fakeUp
				for _, o := range progs[g] {
					for y := 0; y < o.yield; y++ {
						runtime.Gosched()
					}
					switch o.kind {
					case "add":
						u := &fakeUp{ep: o.ep, id: g*100 + len(own)}
						own = append(own, u)
						mu.Lock()
						lives[u] = &life{addStart: clock.Add(1)}
						mu.Unlock()
						mgr.AddConn(u)
					case "remove":
						u := own[o.own]
						mgr.RemoveConn(u)
						e := clock.Add(1)
						mu.Lock()
						if lives[u].removeEnd == 0 {
							lives[u].removeEnd = e
						}
						mu.Unlock()
					case "select":
						s := clock.Add(1)
						got, ok := mgr.Select(o.ep, false)
						e := clock.Add(1)
						mu.Lock()
						sels = append(sels, selRec{s, e, o.ep, got, ok})
						mu.Unlock()
					}
				}
			}(g)
		}
		wg.Wait()
		if p := panics.Load(); p != nil {
			c.Fatalf("C15: panic under concurrent use: %v", p)
		}
		for _, s := range sels {
			if !s.ok {
				continue
			}
			fu, isFake := s.got.(*fakeUp)
			if !isFake || fu == nil {
				c.Fatalf("C15: concurrent select(%s,false) returned %v", s.ep, s.got)
			}
			l := lives[fu]
			if fu.ep != s.ep || l == nil || l.addStart > s.end || (l.removeEnd != 0 && l.removeEnd < s.start) {
				c.Fatalf("C15: concurrent select(%s) in [%d,%d] returned %v whose registration interval is %+v", s.ep, s.start, s.end, fu, l)
			}
		}
		want := map[string]int{}
		for u, l := range lives {
			if l.removeEnd == 0 {
				want[u.ep]++
			}
		}
		if got := mgr.Endpoints(); !reflect.DeepEqual(got, want) {
			c.Fatalf("C15: after concurrent run registry %v, model %v", got, want)
		}
		// hammer: with the set now stable, concurrent selections must neither crash
		// nor be unfair: T selections over n upstreams return each floor(T/n) or ceil(T/n) times
		for ep, n := range want {
			if n < 2 {
				continue
			}
			H, per := c.Int("hammerGoroutines", 2, 6), c.Int("hammerSelects", 50, 600)
			counts := make([]map[*fakeUp]int, H)
			var hw sync.WaitGroup
			for h := 0; h < H; h++ {
				counts[h] = map[*fakeUp]int{}
				hw.Add(1)
				go func(h int) {
					defer hw.Done()
					defer func() {
						if r := recover(); r != nil {
							panics.Store(fmt.Sprintf("hammer goroutine %d: %v", h, r))
						}
					}()
					for i := 0; i < per; i++ {
						if u, ok := mgr.Select(ep, false); ok {
							if fu, isFake := u.(*fakeUp); isFake && fu != nil {
								counts[h][fu]++
							}
						}
					}
				}(h)
			}
			hw.Wait()
			if p := panics.Load(); p != nil {
				c.Fatalf("C15: panic under concurrent selection: %v", p)
			}
			total := map[*fakeUp]int{}
			sum := 0
			for _, m := range counts {
				for u, k := range m {
					total[u] += k
					sum += k
				}
			}
			if sum != H*per || len(total) != n {
				c.Fatalf("C15: %d concurrent selections of %s over %d stable upstreams returned %d results over %d upstreams", H*per, ep, n, sum, len(total))
			}
			for u, k := range total {
				if k < sum/n || k > (sum+n-1)/n {
					c.Fatalf("C15 fairness: %d concurrent selections over %d stable upstreams of %s returned %v %d times (each must get %d or %d)", sum, n, ep, u, k, sum/n, (sum+n-1)/n)
				}
			}
			c.Class("concurrent-hammer")
		}
	})
}

// TestC15Churn: "additions or removals at any point never ... starve a remaining
// upstream". n long-lived upstreams of one endpoint stay registered while
// short-lived ones connect and disconnect between the selections in a periodic
// pattern (a crash-looping agent). With at most t short-lived upstreams alive at
// once, one turn of the cursor passes every long-lived upstream.
func TestC15Churn(t *testing.T) {
	vlib.SetRule("C15", "TestC15Churn", "1-5 long-lived upstreams of one endpoint on the real LoadBalancedManager stay registered while 1-2 short-lived upstreams connect and disconnect between selections in a drawn periodic pattern (selections before the connect, between connect and disconnect, after the disconnect: 0-3 each, not all zero), repeated 6-40 times; oracle: every selection returns a registered upstream of the endpoint, and every window of 2(n+t)+2 consecutive selections contains every long-lived upstream (one turn of the cursor is at most n+t selections; the factor two is slack); non-trivial = a disconnect happened while the cursor rested on the last long-lived upstream")
	vlib.Run(t, "C15", func(c *vlib.Case) {
		cs := cluster.NewState(&cluster.Node{ID: "local", ProxyAddr: "p", AdminAddr: "a"}, log.NewNopLogger())
		mgr := upstream.NewLoadBalancedManager(cs, nil)
		ep := c.OneOf("ep", c15Eps...)
		n := c.Int("longLived", 1, 5)
		var stable []*fakeUp
		for i := 0; i < n; i++ {
			u := &fakeUp{ep: ep, id: i}
			stable = append(stable, u)
			mgr.AddConn(u)
		}
		// move the cursor somewhere first
		for i, k := 0, c.Int("preSelect", 0, 2*n); i < k; i++ {
			mgr.Select(ep, false)
		}
		tMax := c.Int("shortLived", 1, 2)
		a, b, d := c.Int("selBefore", 0, 3), c.Int("selBetween", 0, 3), c.Int("selAfter", 0, 3)
		if a+b+d == 0 {
			a = 1
		}
		c.Header["long_lived"], c.Header["short_lived"], c.Header["pattern"] = n, tMax, fmt.Sprintf("%d sel, connect, %d sel, disconnect, %d sel", a, b, d)
		W := 2*(n+tMax) + 2
		var hist []*fakeUp
		registered := map[*fakeUp]bool{}
		for _, u := range stable {
			registered[u] = true
		}
		sel := func(k int) {
			for i := 0; i < k; i++ {
				got, ok := mgr.Select(ep, false)
				fu, _ := got.(*fakeUp)
				if !ok || fu == nil || !registered[fu] {
					c.Fatalf("C15: selection for %s returned %v (ok=%v), not a registered upstream", ep, got, ok)
				}
				hist = append(hist, fu)
				if len(hist) >= W {
					seen := map[*fakeUp]bool{}
					for _, u := range hist[len(hist)-W:] {
						seen[u] = true
					}
					for _, u := range stable {
						if !seen[u] {
							c.Fatalf("C15 starvation: long-lived upstream %v of %s was not selected in %d consecutive selections (%d long-lived, at most %d short-lived at a time, pattern %v): %v", u, ep, W, n, tMax, c.Header["pattern"], hist[len(hist)-W:])
						}
					}
				}
			}
		}
		id := 100
		for r, rounds := 0, c.Int("rounds", 6, 40); r < rounds; r++ {
			sel(a)
			var ts []*fakeUp
			for i := 0; i < tMax; i++ {
				u := &fakeUp{ep: ep, id: id}
				id++
				ts = append(ts, u)
				registered[u] = true
				mgr.AddConn(u)
			}
			sel(b)
			for _, u := range ts {
				delete(registered, u)
				mgr.RemoveConn(u)
			}
			sel(d)
		}
		c.NonTrivial()
		c.Stepf("%d long-lived, pattern %v, %d selections", n, c.Header["pattern"], len(hist))
	})
}
