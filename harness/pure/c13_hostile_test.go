package pure

import (
	"fmt"
	"reflect"
	"runtime/debug"
	"strconv"
	"strings"
	"testing"
	"time"

	"github.com/andydunstall/piko/pkg/gossip"
	"github.com/andydunstall/piko/pkg/log"
	"github.com/andydunstall/piko/server/cluster"
	sgossip "github.com/andydunstall/piko/server/gossip"

	"verif/harness/vlib"
)

// C13 (c): hostile datagrams and streams.

var hostileBytes = []byte{0x00, 0x01, 0x02, 0x03, 0x04, 0x7f, 0x80, 0x8f, 0x90, 0x9f, 0xa0, 0xbf, 0xc0, 0xc1, 0xc2, 0xc3, 0xc4, 0xc5, 0xc6, 0xca, 0xcb, 0xcc, 0xcd, 0xce, 0xcf, 0xd0, 0xd3, 0xd9, 0xda, 0xdb, 0xdc, 0xdd, 0xde, 0xdf, 0xe0, 0xff}

var bombs = [][]byte{
	{0xdd, 0xff, 0xff, 0xff, 0xff},                         // array32 with 4G elements
	{0xdd, 0x7f, 0xff, 0xff, 0xff},                         // array32 2G
	{0xdf, 0xff, 0xff, 0xff, 0xff},                         // map32 4G
	{0xdb, 0xff, 0xff, 0xff, 0xff},                         // str32 4G
	{0xdb, 0x7f, 0xff, 0xff, 0xf0},                         // str32 2G
	{0xc6, 0xff, 0xff, 0xff, 0xff},                         // bin32 4G
	{0xdc, 0xff, 0xff},                                     // array16 64k
	{0xde, 0xff, 0xff},                                     // map16 64k
	{0xcf, 0xff, 0xff, 0xff, 0xff, 0xff, 0xff, 0xff, 0xff}, // uint64 max
	{0xd3, 0x80, 0, 0, 0, 0, 0, 0, 0},                      // int64 min
	{0xd2, 0xff, 0xff, 0xff, 0xff},                         // int32 -1 (negative entry count)
	{0xc1},                                                 // never-used byte
}

func mutate(c *vlib.Case, b []byte) []byte {
	out := append([]byte(nil), b...)
	for i, n := 0, c.Int("mutations", 1, 4); i < n; i++ {
		if len(out) == 0 {
			out = append(out, hostileBytes[c.Pick("b", len(hostileBytes))])
			continue
		}
		pos := c.Pick("pos", len(out))
		switch c.Pick("mut", 8) {
		case 0: // bit flip
			out[pos] ^= 1 << c.Pick("bit", 8)
		case 1: // hostile constant
			out[pos] = hostileBytes[c.Pick("b", len(hostileBytes))]
		case 2: // truncate
			out = out[:pos]
		case 3: // insert a length bomb
			bomb := bombs[c.Pick("bomb", len(bombs))]
			out = append(out[:pos], append(append([]byte(nil), bomb...), out[pos:]...)...)
		case 4: // overwrite with a length bomb
			bomb := bombs[c.Pick("bomb", len(bombs))]
			out = append(out[:pos], append(append([]byte(nil), bomb...), out[min(len(out), pos+len(bomb)):]...)...)
		case 5: // duplicate a slice
			end := pos + c.Int("len", 1, 40)
			if end > len(out) {
				end = len(out)
			}
			out = append(out[:end], append(append([]byte(nil), out[pos:end]...), out[end:]...)...)
		case 6: // delete a slice
			end := pos + c.Int("len", 1, 10)
			if end > len(out) {
				end = len(out)
			}
			out = append(out[:pos], out[end:]...)
		case 7: // random garbage tail
			out = append(out[:pos], c.Bytes("garbage", 30)...)
		}
	}
	return out
}

// The victim is wired as a server node is: the watcher of its gossip state is the
// real syncer in front of a real routing table, so whatever a received message
// makes the state announce is also folded by production code, on the handler's
// goroutine.
func victim() (*gossip.VerifNode, *pktCap) {
	pc := &pktCap{}
	cs := cluster.NewState(&cluster.Node{ID: "victim", ProxyAddr: "10.0.0.1:8000", AdminAddr: "10.0.0.1:8002"}, log.NewNopLogger())
	sy := sgossip.VerifNewSyncer(cs)
	n := gossip.VerifNewNode("victim", "127.0.0.1:7000", 1400, 100*time.Millisecond, pc, sy)
	sy.VerifSync(n.State)
	n.State.UpsertLocal("proxy_addr", "10.0.0.1:8000")
	n.State.UpsertLocal("admin_addr", "10.0.0.1:8002")
	n.State.UpsertLocal("endpoint:e1", "2")
	n.State.UpsertLocal("gone", "x")
	n.State.DeleteLocal("gone")
	n.State.ApplyDelta(gossip.VerifDelta{{ID: "peer", Addr: "127.0.0.1:7001", Entries: []gossip.Entry{{Key: "proxy_addr", Value: "p", Version: 1}, {Key: "admin_addr", Value: "a", Version: 2}}}})
	return n, pc
}

// aboutVictim builds deltas naming the receiver itself (left marker, compaction
// marker with a bogus value, ordinary keys) at versions above its own.
func aboutVictim(c *vlib.Case, base uint64) gossip.VerifDelta {
	var es []gossip.Entry
	for i, k := 0, c.Int("entries", 1, 4); i < k; i++ {
		v := base + uint64(i) + 1
		switch c.Pick("kind", 5) {
		case 0:
			es = append(es, gossip.Entry{Key: gossip.VerifLeftKey, Version: v, Internal: true})
		case 1:
			es = append(es, gossip.Entry{Key: gossip.VerifCompactKey, Value: c.OneOf("cv", "not-a-number", "-1", "18446744073709551616", strconv.FormatUint(v, 10), ""), Version: v, Internal: true})
		case 2:
			es = append(es, gossip.Entry{Key: "endpoint:e1", Value: "999", Version: v})
		case 3:
			es = append(es, gossip.Entry{Key: "proxy_addr", Value: "6.6.6.6:1", Version: v})
		case 4:
			es = append(es, gossip.Entry{Key: "endpoint:e1", Version: v, Deleted: true})
		}
	}
	return gossip.VerifDelta{{ID: "victim", Addr: c.OneOf("addr", "127.0.0.1:7000", "6.6.6.6:1"), Entries: es}}
}

func TestC13Hostile(t *testing.T) {
	vlib.SetRule("C13", "TestC13Hostile", "structured mutations (bit flips, hostile msgpack constants, truncation at any offset, 12 kinds of length/count bombs, slice duplication/deletion, garbage tails) of valid digest/delta datagrams and join/leave streams, plus well-formed deltas about the receiver itself (left marker, bogus compaction values, forged addresses) sent as datagram, join and leave; fed to the real packet and stream handlers of a node wired like a server node (the real syncer and routing table receive what the gossip state announces); oracle: returns (error or not) within 20 s without panicking, the receiver's own published state and flags are identical before and after; non-trivial = the input passes the type/version check (reaches the decoder)")
	vlib.Run(t, "C13", func(c *vlib.Case) {
		n, _ := victim()
		// a hostile peer sends several messages: state created by one (for instance a
		// node introduced by a digest) is there when the next one arrives
		for round, rounds := 0, c.Int("inputs", 1, 3); round < rounds; round++ {
			hostileOne(c, n)
		}
	})
}

var hostileIDs = []string{"n\xffw", "\xfe", "a\x00b", "", "victim", "peer", "caf\xc3", strings.Repeat("i", 300), "new"}

func hostileOne(c *vlib.Case, n *gossip.VerifNode) {
	{
		before := n.State.LocalNode()
		baseDelta := gossip.VerifDelta{
			{ID: "peer", Addr: "127.0.0.1:7001", Entries: []gossip.Entry{{Key: "k", Value: "v", Version: 3}, {Key: "endpoint:e9", Value: "1", Version: 4}, {Key: gossip.VerifCompactKey, Value: "2", Version: 5, Internal: true}}},
			{ID: "other", Addr: "127.0.0.1:7002", Entries: []gossip.Entry{{Key: "proxy_addr", Value: "q", Version: 1}}},
		}
		baseDigest := gossip.VerifDigest{{ID: "peer", Addr: "127.0.0.1:7001", Version: 9}, {ID: "victim", Addr: "127.0.0.1:7000", Version: 1 << 40}, {ID: "new", Addr: "127.0.0.1:7003", Version: 1}, {ID: "gone", Addr: "127.0.0.1:7004", Version: 1, Left: true}}
		var input []byte
		stream := false
		kind := c.Pick("inputKind", 11)
		switch kind {
		case 0:
			b, _ := gossip.VerifEncodeDelta("peer", "127.0.0.1:7001", baseDelta, 1400)
			input = mutate(c, b)
		case 1:
			b, _ := gossip.VerifEncodeDigest("peer", "127.0.0.1:7001", c.Bool("req"), baseDigest, 1400)
			input = mutate(c, b)
		case 2:
			input, stream = mutate(c, gossip.VerifEncodeJoin("peer", "127.0.0.1:7001", baseDelta, baseDigest)), true
		case 3:
			input, stream = mutate(c, gossip.VerifEncodeLeave("peer", "127.0.0.1:7001", baseDelta)), true
		case 4: // well-formed delta about the receiver
			input, _ = gossip.VerifEncodeDelta("peer", "127.0.0.1:7001", aboutVictim(c, before.Version), 1400)
			c.Class("well-formed-about-receiver")
		case 5:
			input, stream = gossip.VerifEncodeJoin(c.OneOf("claimedID", "peer", "victim"), "127.0.0.1:7001", aboutVictim(c, before.Version), baseDigest), true
			c.Class("well-formed-about-receiver")
		case 6:
			input, stream = gossip.VerifEncodeLeave(c.OneOf("claimedID", "peer", "victim"), "127.0.0.1:7001", aboutVictim(c, before.Version)), true
			c.Class("well-formed-about-receiver")
		case 8: // well-formed datagram with forged entry counts / versions
			var secs []gossip.VerifRawSection
			counts := []int{-1, -2, -128, -129, -32769, -1 << 31, -1 << 62, 0, 1, 2, 3, 127, 128, 65536, 1 << 31, 1 << 40, 1 << 62}
			for i, k := 0, c.Int("sections", 1, 3); i < k; i++ {
				sec := gossip.VerifRawSection{ID: c.OneOf("secID", "peer", "other", "new", "victim"), Addr: "127.0.0.1:7001", Count: counts[c.Pick("count", len(counts))]}
				for j, m := 0, c.Int("realEntries", 0, 3); j < m; j++ {
					ver := []uint64{0, 1, 3, 9, 1 << 32, 1<<64 - 1}[c.Pick("ver", 6)]
					sec.Entries = append(sec.Entries, gossip.Entry{Key: c.OneOf("k", "k", "endpoint:e9", gossip.VerifCompactKey, gossip.VerifLeftKey), Value: c.OneOf("v", "1", "", "x", "18446744073709551615"), Version: ver, Internal: c.Bool("internal"), Deleted: c.Bool("deleted")})
				}
				secs = append(secs, sec)
			}
			input = gossip.VerifEncodeDeltaRaw("peer", "127.0.0.1:7001", counts[c.Pick("senderCount", len(counts))], secs)
			c.Class("forged-counts")
		case 9: // a digest introducing nodes with hostile ids (a later delta may name them)
			var dg gossip.VerifDigest
			for i, k := 0, c.Int("digestEntries", 1, 3); i < k; i++ {
				dg = append(dg, gossip.VerifDigestEntry{ID: hostileIDs[c.Pick("hostileID", len(hostileIDs))], Addr: c.OneOf("daddr", "127.0.0.1:7009", "", "not-an-address"), Version: uint64(c.Int("dver", 0, 3)), Left: c.Chance("dleft", 1, 5)})
			}
			if c.Bool("viaJoin") {
				input, stream = gossip.VerifEncodeJoin(hostileIDs[c.Pick("joinID", len(hostileIDs))], "127.0.0.1:7001", nil, dg), true
			} else {
				input, _ = gossip.VerifEncodeDigest("peer", "127.0.0.1:7001", c.Bool("req"), dg, 1400)
			}
			c.Class("hostile-id-digest")
		case 10: // a delta about nodes with hostile ids
			var secs []gossip.VerifRawSection
			for i, k := 0, c.Int("sections", 1, 2); i < k; i++ {
				secs = append(secs, gossip.VerifRawSection{ID: hostileIDs[c.Pick("hostileID", len(hostileIDs))], Addr: "127.0.0.1:7009", Count: 2, Entries: []gossip.Entry{{Key: "proxy_addr", Value: "p", Version: uint64(c.Int("ver", 1, 4))}, {Key: gossip.VerifLeftKey, Version: 9, Internal: c.Bool("internal")}}})
			}
			input = gossip.VerifEncodeDeltaRaw(hostileIDs[c.Pick("senderID", len(hostileIDs))], "127.0.0.1:7001", 0, secs)
			c.Class("hostile-id-delta")
		case 7: // raw bytes with a plausible prefix
			input = append([]byte{byte(c.Int("type", 0, 5)), byte(c.Int("version", 0, 1))}, c.Bytes("raw", 60)...)
			stream = c.Bool("asStream")
		}
		c.Stepf("kind=%d stream=%v input=%x", kind, stream, input)
		type result struct {
			err   error
			panic string
		}
		done := make(chan result, 1)
		go func() {
			defer func() {
				if r := recover(); r != nil {
					done <- result{panic: fmt.Sprintf("%v\n%s", r, debug.Stack())}
				}
			}()
			var err error
			if stream {
				_, err = n.HandleStreamBytes(input)
			} else {
				err = n.HandlePacket(input)
			}
			done <- result{err: err}
		}()
		var res result
		select {
		case res = <-done:
		case <-time.After(20 * time.Second):
			// a starved machine can hold a goroutine up for long: confirm on a fresh
			// node, with a longer budget, before calling it a hang
			c.Class("timeout-confirm-run")
			n2, _ := victim()
			done2 := make(chan struct{})
			go func() {
				defer func() { _ = recover(); close(done2) }()
				if stream {
					_, _ = n2.HandleStreamBytes(input)
				} else {
					_ = n2.HandlePacket(input)
				}
			}()
			select {
			case <-done2:
				select {
				case res = <-done:
				case <-time.After(60 * time.Second):
					c.Fatalf("C13: handler did not return within 80 s on input %x (stream=%v) although a second run of the same input returned", input, stream)
				}
			case <-time.After(120 * time.Second):
				c.Fatalf("C13: handler did not return (20 s, then 120 s on a fresh node) on input %x (stream=%v)", input, stream)
			}
		}
		if res.panic != "" {
			c.Fatalf("C13: handler panicked on input %x (stream=%v): %s", input, stream, res.panic)
		}
		if res.err == nil {
			c.Class("accepted")
			c.NonTrivial()
		} else {
			msg := res.err.Error()
			if !strings.Contains(msg, "unsupported version") && !strings.Contains(msg, "packet too small") && !strings.Contains(msg, "unsupported message type") && !strings.HasPrefix(msg, "read:") {
				c.NonTrivial()
				c.Class("rejected-by-decoder")
			} else {
				c.Class("rejected-by-header-check")
			}
		}
		after := n.State.LocalNode()
		if !reflect.DeepEqual(before, after) {
			c.Fatalf("C13: received input changed the node's own published state (stream=%v input=%x)\nbefore %+v\nafter  %+v", stream, input, before, after)
		}
		for _, m := range n.State.Nodes() {
			if m.ID == "victim" && (m.Left || m.Unreachable || !m.Expiry.IsZero() || m.Addr != "127.0.0.1:7000") {
				c.Fatalf("C13: received input changed the node's own metadata: %+v", m)
			}
		}
	}
}
