package pure

import (
	"fmt"
	"sort"
	"testing"
	"time"

	"github.com/andydunstall/piko/pkg/gossip"

	"verif/harness/vlib"
)

// Versions are whatever the owner publishes: any uint64. A node that relays
// another node's entries must still emit them in version order, as a prefix of
// what the asker is missing, wherever the versions lie.
var c13Versions = []uint64{1, 2, 3, 7, 255, 256, 65535, 65536, 1<<31 - 1, 1 << 31, 1<<32 - 1, 1 << 32, 1<<62 + 5, 1<<63 - 2, 1<<63 - 1, 1 << 63, 1<<63 + 1, 1<<63 + 4, 1<<64 - 2, 1<<64 - 1}

func TestC13Relay(t *testing.T) {
	vlib.SetRule("C13", "TestC13Relay", "a real node holds the state of 1-3 other nodes whose entries carry drawn versions from the whole uint64 range (integer-width edges 2^8, 2^16, 2^31, 2^32, 2^63, 2^64-1 and small numbers mixed; in a fifth of the cases more entries than the packet limit has bytes); digests asking for everything above a drawn version are handled by the real packet handler under a drawn packet limit; oracle on every emitted delta: within the limit, decodes, per node strictly increasing versions all above the asked version, and exactly the first entries (in version order) the asker is missing - whole entries only; non-trivial = a node's versions lie on both sides of 2^63")
	vlib.Run(t, "C13", func(c *vlib.Case) {
		pc := &pktCap{}
		max := []int{1400, 400, 220, 160}[c.Pick("maxPacket", 4)]
		n := gossip.VerifNewNode("relay", "127.0.0.1:7000", max, 100*time.Millisecond, pc, nil)
		n.State.UpsertLocal("k", "v")
		type owner struct {
			id, addr string
			entries  []gossip.Entry // ascending
		}
		var owners []owner
		straddle := false
		for i, k := 0, c.Int("owners", 1, 3); i < k; i++ {
			o := owner{id: fmt.Sprintf("o%d", i), addr: fmt.Sprintf("127.0.0.1:%d", 7100+i)}
			picked := map[uint64]bool{}
			if c.Chance("manyEntries", 1, 5) {
				// more entries outstanding than the packet has bytes: the entry count in a
				// delta header is what the sender WANTED to send, not what fitted
				for j, m := 0, c.Int("entryCount", max-20, max+60); j < m; j++ {
					picked[uint64(j+1)] = true
				}
				c.Class("more-entries-than-packet-bytes")
			} else {
				for j, m := 0, c.Int("entries", 1, 7); j < m; j++ {
					picked[c13Versions[c.Pick("version", len(c13Versions))]] = true
				}
			}
			var vs []uint64
			lo, hi := false, false
			for v := range picked {
				vs = append(vs, v)
				if v < 1<<63 {
					lo = true
				} else {
					hi = true
				}
			}
			sort.Slice(vs, func(a, b int) bool { return vs[a] < vs[b] })
			for j, v := range vs {
				o.entries = append(o.entries, gossip.Entry{Key: fmt.Sprintf("key-%d", j), Value: c.OneOf("val", "", "x", "some-longer-value-0123456789"), Version: v})
			}
			if lo && hi {
				straddle = true
			}
			// the owner's entries arrive in version order, in one or two deltas
			cut := c.Int("cut", 0, len(o.entries))
			for _, part := range [][]gossip.Entry{o.entries[:cut], o.entries[cut:]} {
				if len(part) > 0 {
					n.State.ApplyDelta(gossip.VerifDelta{{ID: o.id, Addr: o.addr, Entries: part}})
				}
			}
			owners = append(owners, o)
			c.Stepf("relay holds %s at %d versions (first %v)", o.id, len(vs), vs[:min(len(vs), 8)])
		}
		if straddle {
			c.NonTrivial()
			c.Class("versions-straddle-2^63")
		}
		for q, nq := 0, c.Int("digests", 1, 4); q < nq; q++ {
			// the asker knows some prefix of every owner
			asked := map[string]uint64{}
			dg := gossip.VerifDigest{{ID: "asker", Addr: "127.0.0.1:7999", Version: 1}, {ID: "relay", Addr: "127.0.0.1:7000", Version: 1 << 40}}
			for _, o := range owners {
				v := uint64(0)
				if k := c.Int("known", 0, len(o.entries)); k > 0 {
					v = o.entries[k-1].Version
				}
				asked[o.id] = v
				dg = append(dg, gossip.VerifDigestEntry{ID: o.id, Addr: o.addr, Version: v})
			}
			b, err := gossip.VerifEncodeDigest("asker", "127.0.0.1:7999", false, dg, 1400)
			if err != nil {
				c.Harnessf("encode digest: %v", err)
			}
			pc.pkts = nil
			if err := n.HandlePacket(b); err != nil {
				c.Fatalf("C13: the node rejected a well-formed digest: %v", err)
			}
			c.Stepf("digest asking above %v -> %d packets", asked, len(pc.pkts))
			for _, p := range pc.pkts {
				if len(p) > max {
					c.Fatalf("C13: emitted packet of %d bytes, limit %d", len(p), max)
				}
				if p[0] != 2 {
					continue
				}
				_, d, err := gossip.VerifDecodeDelta(p)
				if err != nil {
					c.Fatalf("C13: emitted delta does not decode: %v", err)
				}
				for _, de := range d {
					var want []gossip.Entry
					for _, o := range owners {
						if o.id == de.ID {
							for _, e := range o.entries {
								if e.Version > asked[o.id] {
									want = append(want, e)
								}
							}
						}
					}
					if de.ID == "relay" || de.ID == "asker" {
						continue
					}
					if len(de.Entries) > len(want) {
						c.Fatalf("C13: delta carries %d entries of %s, the asker misses only %d", len(de.Entries), de.ID, len(want))
					}
					for i, e := range de.Entries {
						if e != want[i] {
							c.Fatalf("C13: entries of %s in the emitted delta are not the first the asker is missing, in version order: position %d carries version %d (%q), expected version %d (%q); emitted versions %v", de.ID, i, e.Version, e.Key, want[i].Version, want[i].Key, versionsOf(de.Entries))
						}
					}
				}
			}
		}
	})
}

func versionsOf(es []gossip.Entry) []uint64 {
	var o []uint64
	for _, e := range es {
		o = append(o, e.Version)
	}
	return o
}
