package pure

import (
	"net"
	"strings"
	"sync"
	"testing"
	"time"

	"github.com/andydunstall/piko/pkg/gossip"

	"verif/harness/vlib"
)

// scriptConn is a PacketConn whose incoming datagrams are scripted by the test.
// Like a UDP socket it copies at most len(p) bytes into the reader's buffer.
// "taken" is signalled every time the listener comes back for the next datagram,
// i.e. when the previous one has been handled completely.
type scriptConn struct {
	in     chan []byte
	taken  chan struct{}
	closed chan struct{}
	once   sync.Once
	out    [][]byte
	mu     sync.Mutex
}

func newScriptConn() *scriptConn {
	return &scriptConn{in: make(chan []byte), taken: make(chan struct{}, 1024), closed: make(chan struct{})}
}

func (c *scriptConn) ReadFrom(p []byte) (int, net.Addr, error) {
	c.taken <- struct{}{}
	select {
	case b := <-c.in:
		return copy(p, b), &net.UDPAddr{IP: net.IPv4(127, 0, 0, 1), Port: 7001}, nil
	case <-c.closed:
		return 0, nil, net.ErrClosed
	}
}
func (c *scriptConn) WriteTo(p []byte, a net.Addr) (int, error) {
	c.mu.Lock()
	c.out = append(c.out, append([]byte(nil), p...))
	c.mu.Unlock()
	return len(p), nil
}
func (c *scriptConn) Close() error                     { c.once.Do(func() { close(c.closed) }); return nil }
func (c *scriptConn) LocalAddr() net.Addr              { return nil }
func (c *scriptConn) SetDeadline(time.Time) error      { return nil }
func (c *scriptConn) SetReadDeadline(time.Time) error  { return nil }
func (c *scriptConn) SetWriteDeadline(time.Time) error { return nil }

// TestC13Receive runs the real receive loop (packetListener.Serve, which the
// simulation bypasses) over scripted datagrams whose lengths lie around the
// configured maximum packet size.
func TestC13Receive(t *testing.T) {
	vlib.SetRule("C13", "TestC13Receive", "the real packetListener.Serve loop over a scripted socket: well-formed deltas from a peer whose encoded length is exactly the receiver's maximum packet size minus 0, 1, 2 or a drawn amount (value lengths are tuned to hit the length), interleaved with hostile datagrams (empty, one byte, longer than the maximum and therefore cut by the socket, random bytes); oracle: the loop survives every datagram and every well-formed datagram that fits the maximum is applied (the entry becomes visible) - senders are entitled to use the whole limit; own state untouched; non-trivial = a datagram of exactly the maximum size was applied")
	vlib.Run(t, "C13", func(c *vlib.Case) {
		max := c.Int("maxPacket", 120, 1400)
		sc := newScriptConn()
		n := gossip.VerifNewNode("rx", "127.0.0.1:7000", max, 100*time.Millisecond, sc, nil)
		n.State.UpsertLocal("own", "v")
		own := n.State.LocalNode()
		done := make(chan struct{})
		go func() { n.PL.Serve(); close(done) }()
		defer func() {
			sc.Close()
			select {
			case <-done:
			case <-time.After(150 * time.Second):
				c.Fatalf("C13: the receive loop did not stop when its socket was closed")
			}
		}()
		wait := func(what string) {
			select {
			case <-sc.taken:
			case <-done:
				c.Fatalf("C13: the receive loop ended after %s", what)
			case <-time.After(150 * time.Second): // generous: a starved machine must not look like a hang
				c.Fatalf("C13: the receive loop did not come back for the next datagram within 150 s after %s", what)
			}
		}
		wait("start")
		version := uint64(0)
		exact := false
		for i, k := 0, c.Int("datagrams", 1, 10); i < k; i++ {
			switch c.Weighted("kind", []string{"fit", "hostile"}, []int{3, 1}) {
			case "fit":
				short := []int{0, 0, 1, 2, c.Int("shortBy", 3, 60)}[c.Pick("short", 5)]
				target := max - short
				version++
				key := "k" + strings.Repeat("x", c.Int("keyLen", 0, 6))
				// tune the value length so that the datagram is exactly `target` bytes long
				var b []byte
				for vl := 0; vl <= target; vl++ {
					e := gossip.Entry{Key: key, Value: strings.Repeat("v", vl), Version: version}
					p, err := gossip.VerifEncodeDelta("peer", "127.0.0.1:7001", gossip.VerifDelta{{ID: "peer", Addr: "127.0.0.1:7001", Entries: []gossip.Entry{e}}}, 1<<20)
					if err != nil {
						c.Harnessf("encode: %v", err)
					}
					if len(p) == target {
						b = p
						break
					}
					if len(p) > target {
						break
					}
				}
				if b == nil {
					// no value length gives this exact size (string header widths): skip
					version--
					continue
				}
				sc.in <- b
				wait("a well-formed delta")
				c.Stepf("delta of %d bytes (maximum %d): version %d", len(b), max, version)
				view, ok := n.State.Node("peer")
				if !ok || view.Version != version {
					got := uint64(0)
					if ok {
						got = view.Version
					}
					c.Fatalf("C13: a well-formed delta datagram of %d bytes (maximum packet size %d) carrying version %d was not applied: the receiver is at version %d (known=%v)", len(b), max, version, got, ok)
				}
				if len(b) == max {
					exact = true
				}
			case "hostile":
				var b []byte
				switch c.Pick("hostileKind", 4) {
				case 0:
					b = []byte{}
				case 1:
					b = []byte{byte(c.Int("byte", 0, 255))}
				case 2:
					b = c.Bytes("longer", max+200)
					for len(b) <= max {
						b = append(b, 0xc1)
					}
				case 3:
					b = c.Bytes("random", 64)
				}
				sc.in <- b
				wait("a hostile datagram")
				c.Stepf("hostile datagram of %d bytes", len(b))
			}
			if now := n.State.LocalNode(); len(now.Entries) != len(own.Entries) || now.Version != own.Version {
				c.Fatalf("C13: the receiver's own state changed: %+v -> %+v", own, now)
			}
		}
		if exact {
			c.NonTrivial()
			c.Class("exact-fit-datagram")
		}
	})
}
