package pure

import (
	"reflect"
	"testing"
	"time"

	"github.com/andydunstall/piko/pkg/gossip"

	"verif/harness/vlib"
)

// C17: a node's own published state is a last-write-wins map; compaction
// preserves live keys. Oracle: an independent reference map.

var c17Keys = []string{"a", "b", "c", "kéy", "", "endpoint:e1"}
var c17Vals = []string{"", "1", "2", "x", "värde"}

type refEntry struct {
	value   string
	deleted bool
}

func liveMap(ns *gossip.NodeState) (live map[string]string, tombs map[string]bool) {
	live, tombs = map[string]string{}, map[string]bool{}
	for _, e := range ns.Entries {
		if e.Internal {
			continue
		}
		if e.Deleted {
			tombs[e.Key] = true
		} else {
			live[e.Key] = e.Value
		}
	}
	return
}

func checkLocalShape(c *vlib.Case, ns *gossip.NodeState) {
	seenV := map[uint64]bool{}
	seenK := map[string]bool{}
	var max uint64
	for _, e := range ns.Entries {
		if e.Version == 0 || seenV[e.Version] {
			c.Fatalf("C17: version %d is zero or used twice in own state: %+v", e.Version, ns.Entries)
		}
		if seenK[e.Key] {
			c.Fatalf("C17: key %q twice in own state", e.Key)
		}
		seenV[e.Version], seenK[e.Key] = true, true
		if e.Version > max {
			max = e.Version
		}
		if e.Deleted && e.Value != "" {
			c.Fatalf("C17: tombstone with a value: %+v", e)
		}
	}
	if len(ns.Entries) > 0 && ns.Version != max {
		c.Fatalf("C17: node version %d != newest entry version %d", ns.Version, max)
	}
}

func TestC17LWW(t *testing.T) {
	vlib.SetRule("C17", "TestC17LWW", "rapid state machine over upsert/delete/compact/leave on the real clusterState vs a reference map; non-trivial = a deleted key is re-created, or an effective compaction happens after a delete or a leave; distinct = distinct draw sequences")
	vlib.Run(t, "C17", func(c *vlib.Case) {
		n := gossip.VerifNewNode("n0", "127.0.0.1:7000", 1400, 100*time.Millisecond, nil, nil)
		st := n.State
		ref := map[string]refEntry{}
		left := false
		steps := c.Int("steps", 1, 40)
		sawDelete := false
		for i := 0; i < steps; i++ {
			before := st.LocalNode()
			kind := c.Weighted("op", []string{"upsert", "delete", "compact", "leave"}, []int{6, 4, 3, 1})
			switch kind {
			case "upsert":
				k, v := c.OneOf("key", c17Keys...), c.OneOf("val", c17Vals...)
				c.Stepf("upsert(%q,%q)", k, v)
				old, had := ref[k]
				st.UpsertLocal(k, v)
				after := st.LocalNode()
				noop := had && !old.deleted && old.value == v
				if had && old.deleted {
					c.NonTrivial()
					c.Class("recreate-deleted")
					if v == "" {
						c.Class("recreate-deleted-empty-value")
					}
				}
				ref[k] = refEntry{value: v}
				if noop {
					if !reflect.DeepEqual(before, after) {
						c.Fatalf("C17: no-op upsert(%q,%q) changed own state\nbefore %+v\nafter  %+v", k, v, before, after)
					}
				} else {
					checkFresh(c, before, after, k, "upsert")
				}
			case "delete":
				k := c.OneOf("key", c17Keys...)
				c.Stepf("delete(%q)", k)
				old, had := ref[k]
				st.DeleteLocal(k)
				after := st.LocalNode()
				if !had || old.deleted {
					if !reflect.DeepEqual(before, after) {
						c.Fatalf("C17: no-op delete(%q) changed own state\nbefore %+v\nafter  %+v", k, before, after)
					}
				} else {
					sawDelete = true
					ref[k] = refEntry{deleted: true}
					checkFresh(c, before, after, k, "delete")
				}
			case "compact":
				th := c.Int("threshold", 1, 3)
				c.Stepf("compact(%d)", th)
				tombs := 0
				for _, e := range ref {
					if e.deleted {
						tombs++
					}
				}
				st.CompactLocal(th)
				after := st.LocalNode()
				if tombs < th {
					if !reflect.DeepEqual(before, after) {
						c.Fatalf("C17: compaction below threshold (%d tombstones < %d) changed own state\nbefore %+v\nafter  %+v", tombs, th, before, after)
					}
				} else {
					c.Class("effective-compaction")
					if sawDelete || left {
						c.NonTrivial()
					}
					if left {
						c.Class("compaction-after-leave")
					}
					for k, e := range ref {
						if e.deleted {
							delete(ref, k)
						}
					}
					_, tb := liveMap(after)
					if len(tb) != 0 {
						c.Fatalf("C17: compaction left tombstones %v", tb)
					}
					for _, e := range after.Entries {
						if e.Version <= before.Version {
							c.Fatalf("C17: after compaction entry %+v keeps a version at or below the pre-compaction version %d", e, before.Version)
						}
					}
					if after.Left != before.Left {
						c.Fatalf("C17: compaction changed the left flag")
					}
					// a left marker must survive compaction
					if left {
						found := false
						for _, e := range after.Entries {
							if e.Internal && e.Key == gossip.VerifLeftKey {
								found = true
							}
						}
						if !found {
							c.Fatalf("C17: compaction dropped the left marker")
						}
					}
				}
			case "leave":
				c.Stepf("leave")
				st.LeaveLocal()
				after := st.LocalNode()
				if left {
					if !reflect.DeepEqual(before, after) {
						c.Fatalf("C17: repeated leave changed own state")
					}
				} else {
					left = true
					if !after.Left || after.Version <= before.Version {
						c.Fatalf("C17: leave did not publish a fresh version: before v%d after %+v", before.Version, after.NodeMetadata)
					}
				}
			}
			after := st.LocalNode()
			checkLocalShape(c, after)
			if after.Version < before.Version {
				c.Fatalf("C17: own version went backwards %d -> %d", before.Version, after.Version)
			}
			live, tombs := liveMap(after)
			wantLive, wantTombs := map[string]string{}, map[string]bool{}
			for k, e := range ref {
				if e.deleted {
					wantTombs[k] = true
				} else {
					wantLive[k] = e.value
				}
			}
			if !reflect.DeepEqual(live, wantLive) {
				c.Fatalf("C17: visible own state %v, reference map %v (after %s)", live, wantLive, kind)
			}
			if !reflect.DeepEqual(tombs, wantTombs) {
				c.Fatalf("C17: deletion markers %v, reference %v (after %s)", tombs, wantTombs, kind)
			}
		}
	})
}

// checkFresh: an effective change to key k got a fresh, strictly larger version
// and changed nothing else.
func checkFresh(c *vlib.Case, before, after *gossip.NodeState, k, op string) {
	if after.Version <= before.Version {
		c.Fatalf("C17: effective %s(%q) did not take a larger version: %d -> %d", op, k, before.Version, after.Version)
	}
	var got *gossip.Entry
	for i, e := range after.Entries {
		if e.Key == k && !e.Internal {
			got = &after.Entries[i]
		}
	}
	if got == nil {
		c.Fatalf("C17: after %s(%q) the key has no entry", op, k)
	}
	if got.Version <= before.Version {
		c.Fatalf("C17: %s(%q) entry version %d is not above the previous node version %d", op, k, got.Version, before.Version)
	}
	// every other entry is untouched
	old := map[string]gossip.Entry{}
	for _, e := range before.Entries {
		old[e.Key] = e
	}
	for _, e := range after.Entries {
		if e.Key == k && !e.Internal {
			continue
		}
		if o, ok := old[e.Key]; !ok || o != e {
			c.Fatalf("C17: %s(%q) also changed entry %+v (was %+v)", op, k, e, o)
		}
	}
	if len(after.Entries) < len(before.Entries) {
		c.Fatalf("C17: %s(%q) removed entries", op, k)
	}
}
