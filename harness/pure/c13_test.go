package pure

import (
	"bytes"
	"fmt"
	"reflect"
	"strings"
	"testing"
	"time"

	"github.com/andydunstall/piko/pkg/gossip"

	"verif/harness/vlib"
)

// C13 (a): every digest/delta content x every maximum packet size.

var c13IDs = []string{"n", "node-1", "nöde-2", "a-rather-long-node-identifier-0123456789", ""}
var c13Addrs = []string{"10.0.0.1:8003", "[2001:db8::1]:8003", "some-long-hostname.internal.example.com:8003", ""}
var c13Keys = []string{"k", "proxy_addr", "endpoint:my-endpoint", "kéy", "", "_internal:compact", strings.Repeat("K", 40)}

func drawEntry(c *vlib.Case, ver uint64) gossip.Entry {
	e := gossip.Entry{Key: c13Keys[c.Pick("key", len(c13Keys))], Version: ver}
	switch c.Pick("valKind", 5) {
	case 0:
		e.Value = ""
	case 1:
		e.Value = "1"
	case 2:
		e.Value = c.Str("val", 40)
	case 3:
		e.Value = strings.Repeat("v", []int{31, 32, 33, 255, 256, 300}[c.Pick("edge", 6)]) // msgpack fixstr/str8/str16 edges
	case 4:
		e.Deleted = true
	}
	e.Internal = c.Chance("internal", 1, 6)
	return e
}

func drawVersion(c *vlib.Case, prev uint64) uint64 {
	step := []uint64{1, 1, 2, 100, 1 << 8, 1 << 16, 1 << 32}[c.Pick("verStep", 7)] // integer width edges
	return prev + step
}

func drawDelta(c *vlib.Case) gossip.VerifDelta {
	var d gossip.VerifDelta
	for i, n := 0, c.Int("nodes", 1, 6); i < n; i++ {
		de := gossip.VerifDeltaEntry{ID: c13IDs[c.Pick("id", len(c13IDs))] + fmt.Sprint(i), Addr: c13Addrs[c.Pick("addr", len(c13Addrs))]}
		var v uint64
		for j, m := 0, c.Int("entries", 0, 8); j < m; j++ {
			v = drawVersion(c, v)
			de.Entries = append(de.Entries, drawEntry(c, v))
		}
		d = append(d, de)
	}
	return d
}

func prefixSteps(header int, items []int) []int {
	steps := []int{header}
	n := header
	for _, it := range items {
		n += it
		steps = append(steps, n)
	}
	return steps
}

func largestStep(steps []int, max int) (int, int) {
	best, idx := -1, -1
	for i, s := range steps {
		if s <= max {
			best, idx = s, i
		}
	}
	return best, idx
}

func TestC13Delta(t *testing.T) {
	vlib.SetRule("C13", "TestC13Delta", "generated deltas (1-6 nodes, 0-8 entries each, unicode/empty/long keys and values at msgpack width edges, versions at integer width edges) encoded by the real encoder at EVERY maximum size from below the bare header to the full length + 1; oracle: length <= max, equals the full encoding cut at the largest whole-item boundary <= max (boundaries computed by encoding each item on its own), decodes without error to the item-prefix of the intended value with entries per node in increasing version order, error (not panic) when the header does not fit; non-trivial = the sweep crosses at least 3 distinct truncation points")
	vlib.Run(t, "C13", func(c *vlib.Case) {
		d := drawDelta(c)
		sid, saddr := c13IDs[c.Pick("sid", len(c13IDs))], c13Addrs[c.Pick("saddr", len(c13Addrs))]
		full, err := gossip.VerifEncodeDelta(sid, saddr, d, 1<<30)
		if err != nil {
			c.Fatalf("C13: unlimited encode failed: %v", err)
		}
		hdr, items := gossip.VerifDeltaItemSizes(sid, saddr, d)
		steps := prefixSteps(hdr, items)
		if steps[len(steps)-1] != len(full) {
			c.Harnessf("item sizes sum to %d, full encoding is %d bytes", steps[len(steps)-1], len(full))
		}
		c.Stepf("delta %d nodes %d items full=%d bytes header=%d", len(d), len(items), len(full), hdr)
		if len(steps) > 3 {
			c.NonTrivial()
		}
		for max := 0; max <= len(full)+1; max++ {
			b, err := gossip.VerifEncodeDelta(sid, saddr, d, max)
			if max < hdr {
				if err == nil {
					c.Fatalf("C13: max=%d is below the packet header (%d bytes) but encoding succeeded with %d bytes", max, hdr, len(b))
				}
				continue
			}
			if err != nil {
				c.Fatalf("C13: encode at max=%d failed: %v", max, err)
			}
			if len(b) > max {
				c.Fatalf("C13: delta of %d bytes exceeds the maximum packet size %d", len(b), max)
			}
			want, idx := largestStep(steps, max)
			if len(b) != want || !bytes.Equal(b, full[:want]) {
				c.Fatalf("C13: at max=%d the encoder emitted %d bytes; the longest whole-item prefix that fits is %d bytes (%d of %d items)", max, len(b), want, idx, len(items))
			}
			gotID, dec, err := gossip.VerifDecodeDelta(b)
			if err != nil {
				c.Fatalf("C13: delta emitted at max=%d does not decode: %v", max, err)
			}
			if gotID != sid {
				c.Fatalf("C13: decoded sender %q, want %q", gotID, sid)
			}
			checkDeltaPrefix(c, dec, d, idx, max)
		}
	})
}

// checkDeltaPrefix: dec is exactly the first nItems items of want.
func checkDeltaPrefix(c *vlib.Case, dec, want gossip.VerifDelta, nItems, max int) {
	k := 0
	for di, de := range dec {
		if di >= len(want) || want[di].ID != de.ID || want[di].Addr != de.Addr {
			c.Fatalf("C13: at max=%d decoded node #%d is %q/%q, intended %+v", max, di, de.ID, de.Addr, want)
		}
		k++
		var last uint64
		for ei, e := range de.Entries {
			if ei >= len(want[di].Entries) || want[di].Entries[ei] != e {
				c.Fatalf("C13: at max=%d entry %d of node %q decodes to %+v, not the intended entry", max, ei, de.ID, e)
			}
			if e.Version <= last {
				c.Fatalf("C13: entries of node %q not in increasing version order", de.ID)
			}
			last = e.Version
			k++
		}
		if di < len(dec)-1 && len(de.Entries) != len(want[di].Entries) {
			c.Fatalf("C13: at max=%d node %q is cut short but further nodes follow", max, de.ID)
		}
	}
	if k != nItems {
		c.Fatalf("C13: at max=%d the packet decodes to %d items, the fitting prefix has %d", max, k, nItems)
	}
}

func TestC13Digest(t *testing.T) {
	vlib.SetRule("C13", "TestC13Digest", "generated digests (0-12 entries, ids/addresses of mixed length, versions at integer width edges) at every maximum size; same oracle as TestC13Delta for digest entries; also the digest produced by the real Gossip.gossip sender over the same sweep (entries distinct members of the state digest, maximal when all entries have equal size); non-trivial = at least 3 truncation points")
	vlib.Run(t, "C13", func(c *vlib.Case) {
		var d gossip.VerifDigest
		var v uint64
		for i, n := 0, c.Int("entries", 0, 12); i < n; i++ {
			v = drawVersion(c, v)
			d = append(d, gossip.VerifDigestEntry{ID: c13IDs[c.Pick("id", len(c13IDs))] + fmt.Sprint(i), Addr: c13Addrs[c.Pick("addr", len(c13Addrs))], Version: v, Left: c.Chance("left", 1, 5)})
		}
		sid, saddr, req := c13IDs[c.Pick("sid", len(c13IDs))], c13Addrs[c.Pick("saddr", len(c13Addrs))], c.Bool("request")
		full, err := gossip.VerifEncodeDigest(sid, saddr, req, d, 1<<30)
		if err != nil {
			c.Fatalf("C13: unlimited digest encode failed: %v", err)
		}
		hdr, items := gossip.VerifDigestItemSizes(sid, saddr, req, d)
		steps := prefixSteps(hdr, items)
		if steps[len(steps)-1] != len(full) {
			c.Harnessf("digest item sizes sum to %d, full encoding is %d", steps[len(steps)-1], len(full))
		}
		if len(steps) > 3 {
			c.NonTrivial()
		}
		c.Stepf("digest %d entries full=%d header=%d", len(d), len(full), hdr)
		for max := 0; max <= len(full)+1; max++ {
			b, err := gossip.VerifEncodeDigest(sid, saddr, req, d, max)
			if max < hdr {
				if err == nil {
					c.Fatalf("C13: max=%d is below the digest header (%d bytes) but encoding succeeded", max, hdr)
				}
				continue
			}
			if err != nil {
				c.Fatalf("C13: digest encode at max=%d failed: %v", max, err)
			}
			want, idx := largestStep(steps, max)
			if len(b) > max || len(b) != want || !bytes.Equal(b, full[:want]) {
				c.Fatalf("C13: at max=%d the digest encoder emitted %d bytes; longest whole-entry prefix that fits is %d", max, len(b), want)
			}
			gid, gaddr, greq, dec, err := gossip.VerifDecodeDigest(b)
			if err != nil || gid != sid || gaddr != saddr || greq != req {
				c.Fatalf("C13: digest at max=%d decodes to header %q/%q/%v err=%v", max, gid, gaddr, greq, err)
			}
			if len(dec) != idx || (idx > 0 && !reflect.DeepEqual([]gossip.VerifDigestEntry(dec), []gossip.VerifDigestEntry(d[:idx]))) {
				c.Fatalf("C13: digest at max=%d decodes to %d entries %+v, want the first %d of %+v", max, len(dec), dec, idx, d)
			}
		}
	})
}

// TestC13GossipSender sweeps the packet limit of the real gossip-round sender.
func TestC13GossipSender(t *testing.T) {
	vlib.SetRule("C13", "TestC13GossipSender", "the digest request built by the real Gossip.gossip for a state of 1-8 known nodes with equal-size entries, at every configured maximum packet size from below the header upwards; oracle: error when the header does not fit, else length <= max, decodes, entries are distinct members of the state digest, and no omitted entry would still have fitted; non-trivial = some size truncates the digest")
	vlib.Run(t, "C13", func(c *vlib.Case) {
		k := c.Int("known", 0, 7)
		base := uint64([]int{1, 200, 70000}[c.Pick("verBase", 3)])
		var peers gossip.VerifDigest
		for i := 0; i < k; i++ {
			peers = append(peers, gossip.VerifDigestEntry{ID: fmt.Sprintf("peer-%d", i), Addr: fmt.Sprintf("10.0.0.%d:8003", i+1), Version: base})
		}
		hdr, _ := gossip.VerifDigestItemSizes("self-0", "10.0.0.9:8003", true, nil)
		fullLen := 0
		trunc := false
		for max := hdr - 2; ; max++ {
			pc := &pktCap{}
			n := gossip.VerifNewNode("self-0", "10.0.0.9:8003", max, 100*time.Millisecond, pc, nil)
			n.State.ApplyDigest(peers)
			stateDigest := n.State.Digest()
			err := n.GossipTo(gossip.NodeMetadata{ID: "peer-x", Addr: "10.0.0.1:8003"})
			if max < hdr {
				if err == nil {
					c.Fatalf("C13: gossip sender with max=%d below the header (%d) did not fail", max, hdr)
				}
				continue
			}
			if err != nil {
				c.Fatalf("C13: gossip sender failed at max=%d: %v", max, err)
			}
			if len(pc.pkts) != 1 {
				c.Fatalf("C13: gossip sender emitted %d packets", len(pc.pkts))
			}
			b := pc.pkts[0]
			if len(b) > max {
				c.Fatalf("C13: gossip sender emitted %d bytes with max=%d", len(b), max)
			}
			id, addr, req, dec, err := gossip.VerifDecodeDigest(b)
			if err != nil || id != "self-0" || addr != "10.0.0.9:8003" || !req {
				c.Fatalf("C13: gossip sender packet decodes to %q/%q/%v err=%v", id, addr, req, err)
			}
			members := map[string]gossip.VerifDigestEntry{}
			for _, e := range stateDigest {
				members[e.ID] = e
			}
			seen := map[string]bool{}
			used := hdr
			for _, e := range dec {
				if m, ok := members[e.ID]; !ok || m != e || seen[e.ID] {
					c.Fatalf("C13: gossip sender digest carries %+v, not (once) in the state digest", e)
				}
				seen[e.ID] = true
				_, it := gossip.VerifDigestItemSizes(id, addr, req, gossip.VerifDigest{e})
				used += it[0]
			}
			if used != len(b) {
				c.Fatalf("C13: gossip sender packet is %d bytes, its whole entries make %d", len(b), used)
			}
			if len(dec) < len(stateDigest) {
				trunc = true
				// all omitted entries: the smallest must not fit
				for _, e := range stateDigest {
					if !seen[e.ID] {
						_, it := gossip.VerifDigestItemSizes(id, addr, req, gossip.VerifDigest{e})
						// entries of peers have equal size; the local entry may differ: only flag when every omitted entry fits
						if len(b)+maxItem(stateDigest, seen, id, addr) <= max {
							c.Fatalf("C13: gossip sender at max=%d sent %d bytes and omitted entries although each of them (largest %d bytes) still fits; e.g. %+v (%d bytes)", max, len(b), maxItem(stateDigest, seen, id, addr), e, it[0])
						}
						break
					}
				}
			} else {
				fullLen = len(b)
			}
			if fullLen > 0 && max > fullLen {
				break
			}
		}
		if trunc {
			c.NonTrivial()
		}
		c.Stepf("known=%d verBase=%d", k, base)
	})
}

func maxItem(d gossip.VerifDigest, seen map[string]bool, id, addr string) int {
	m := 0
	for _, e := range d {
		if seen[e.ID] {
			continue
		}
		_, it := gossip.VerifDigestItemSizes(id, addr, true, gossip.VerifDigest{e})
		if it[0] > m {
			m = it[0]
		}
	}
	return m
}
