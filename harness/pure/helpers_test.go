package pure

import (
	"net"
	"time"
)

// pktCap is a net.PacketConn that records what is written to it.
type pktCap struct{ pkts [][]byte }

func (c *pktCap) ReadFrom(p []byte) (int, net.Addr, error) { select {} }
func (c *pktCap) WriteTo(p []byte, a net.Addr) (int, error) {
	c.pkts = append(c.pkts, append([]byte(nil), p...))
	return len(p), nil
}
func (c *pktCap) Close() error                     { return nil }
func (c *pktCap) LocalAddr() net.Addr              { return nil }
func (c *pktCap) SetDeadline(time.Time) error      { return nil }
func (c *pktCap) SetReadDeadline(time.Time) error  { return nil }
func (c *pktCap) SetWriteDeadline(time.Time) error { return nil }
