package pure

import (
	"testing"
	"time"

	"github.com/andydunstall/piko/pkg/gossip"

	"verif/harness/vlib"
)

// D2 (fixed): re-creating a deleted key with the empty value.
func TestRegressD2(t *testing.T) {
	vlib.SetRule("C17", "TestRegressD2", "fixed regression case of finding D2: upsert(k,v) delete(k) upsert(k,\"\")")
	vlib.Fixed(t, "C17", false, func(c *vlib.Case) {
		n := gossip.VerifNewNode("n0", "127.0.0.1:7000", 1400, 100*time.Millisecond, nil, nil)
		n.State.UpsertLocal("k", "v")
		n.State.DeleteLocal("k")
		before := n.State.LocalNode()
		n.State.UpsertLocal("k", "")
		after := n.State.LocalNode()
		c.Stepf("upsert(k,v) delete(k) upsert(k,\"\")")
		live, _ := liveMap(after)
		if v, ok := live["k"]; !ok || v != "" {
			c.Fatalf("C17: after upsert(k,v) delete(k) upsert(k,\"\") the key is not visible with the empty value: %+v", after.Entries)
		}
		if after.Version <= before.Version {
			c.Fatalf("C17: the re-creation took no fresh version (%d -> %d)", before.Version, after.Version)
		}
	})
}

// D5 (fixed): a delta naming a node id that is not valid UTF-8.
func TestRegressD5(t *testing.T) {
	vlib.SetRule("C13", "TestRegressD5", "fixed regression case of finding D5: delta datagram and join stream naming a node id that is not valid UTF-8")
	vlib.Fixed(t, "C13", false, func(c *vlib.Case) {
		for _, stream := range []bool{false, true} {
			n, _ := victim()
			before := n.State.LocalNode()
			d := gossip.VerifDelta{{ID: "p\xffer", Addr: "127.0.0.1:7009", Entries: []gossip.Entry{{Key: "k", Value: "v", Version: 1}}}}
			var err error
			func() {
				defer func() {
					if r := recover(); r != nil {
						c.Fatalf("C13: handler panicked on a node id that is not valid UTF-8 (stream=%v): %v", stream, r)
					}
				}()
				if stream {
					_, err = n.HandleStreamBytes(gossip.VerifEncodeJoin("peer", "127.0.0.1:7001", d, gossip.VerifDigest{{ID: "q\xfe", Addr: "a", Version: 3}}))
				} else {
					b, _ := gossip.VerifEncodeDelta("peer", "127.0.0.1:7001", d, 1400)
					err = n.HandlePacket(b)
				}
			}()
			c.Stepf("stream=%v err=%v", stream, err)
			if after := n.State.LocalNode(); len(after.Entries) != len(before.Entries) || after.Version != before.Version {
				c.Fatalf("C13: own state changed")
			}
		}
	})
}
