package pure

import (
	"math"
	"math/big"
	"strings"
	"testing"
	"time"

	"github.com/andydunstall/piko/pkg/gossip"

	"verif/harness/vlib"
)

// C12: phi accrual failure detector vs an exact rational reference.

var c12Scales = []int64{1, 1000, 1_000_000, 50_000_000, 1_000_000_000, 60_000_000_000}

func drawInterval(c *vlib.Case, label string) int64 {
	sc := c12Scales[c.Pick(label+"Scale", len(c12Scales))]
	return sc * int64(c.Int(label, 1, 999))
}

// refPhi computes (t-last)/mean(last min(n,W) intervals) exactly.
func refPhi(intervals []int64, W int, silence int64) *big.Rat {
	k := len(intervals)
	if k > W {
		k = W
	}
	sum := new(big.Int)
	for _, iv := range intervals[len(intervals)-k:] {
		sum.Add(sum, big.NewInt(iv))
	}
	// phi = silence / (sum/k) = silence*k/sum
	num := new(big.Int).Mul(big.NewInt(silence), big.NewInt(int64(k)))
	return new(big.Rat).SetFrac(num, sum)
}

func closeTo(got float64, want *big.Rat) bool {
	w, _ := want.Float64()
	return math.Abs(got-w) <= 1e-9*math.Max(1, math.Abs(w))
}

func TestC12Phi(t *testing.T) {
	vlib.SetRule("C12", "TestC12Phi", "window size 1-64 (biased to 50 and tiny), bootstrap interval, node ids of 1-300 bytes, strictly increasing arrivals up to 5x the window with intervals from 1ns to 1h scales, queries at and after the last arrival, and a peer that is queried before it is first heard from; oracle: exact rational phi (tolerance 1e-9 relative), phi==0 at arrival, monotone in t, accuracy/completeness bounds from min/max window interval, metamorphic prefix-independence; non-trivial = sequence longer than the window (eviction exercised)")
	vlib.Run(t, "C12", func(c *vlib.Case) {
		W := c.Int("window", 1, 64)
		if c.Chance("prod", 1, 4) {
			W = 50
		}
		bootstrap := drawInterval(c, "bootstrap")
		n := c.Int("arrivals", 1, 5*W+3)
		c.Header["window"], c.Header["bootstrap_ns"], c.Header["arrivals"] = W, bootstrap, n
		if n > W {
			c.NonTrivial()
			c.Class("longer-than-window")
		}
		if n > 2*W {
			c.Class("wrapped-twice")
		}
		base := time.Unix(1_700_000_000, 0)
		w := gossip.VerifNewArrivalWindow(time.Duration(bootstrap), W)
		fd := gossip.VerifNewFailureDetector(time.Duration(bootstrap), W)
		// node ids are whatever the operator configures (a pod name as prefix, say)
		id := c.OneOf("nodeID", "x", "x", strings.Repeat("n", 64), strings.Repeat("n", 65), "piko-server-statefulset-0.piko.some-long-namespace.svc.cluster.local-abcdefg", "nœud-"+strings.Repeat("é", 30), strings.Repeat("i", 300))
		c.Header["node_id_bytes"] = len(id)
		intervals := []int64{bootstrap}
		now := base
		w.Add(now)
		fd.ReportWithTimestamp(id, now)
		check := func(label string) {
			// at the arrival instant
			if p := w.Phi(now); p != 0 {
				c.Fatalf("C12: phi at the arrival instant is %v, not 0 (%s)", p, label)
			}
			k := len(intervals)
			if k > W {
				k = W
			}
			win := intervals[len(intervals)-k:]
			mn, mx := win[0], win[0]
			for _, iv := range win {
				if iv < mn {
					mn = iv
				}
				if iv > mx {
					mx = iv
				}
			}
			prev := 0.0
			var prevS int64
			for q := 0; q < 3; q++ {
				var silence int64
				switch c.Pick("queryKind", 4) {
				case 0:
					silence = drawInterval(c, "silence")
				case 1: // just inside the steady bound
					silence = 20*mn - int64(c.Int("eps", 1, 3))
				case 2: // just beyond the silent bound
					silence = 20*mx + int64(c.Int("eps", 1, 3))
				case 3:
					silence = int64(c.Int("mult", 0, 40)) * mn
				}
				if silence < 0 {
					silence = 0
				}
				qt := now.Add(time.Duration(silence))
				got := w.Phi(qt)
				want := refPhi(intervals, W, silence)
				if !closeTo(got, want) {
					c.Fatalf("C12: phi=%v but exact value is %s (window=%d, %d arrivals, silence=%dns, %s)", got, want.FloatString(12), W, len(intervals), silence, label)
				}
				if got2 := fd.SuspicionLevelAt(id, qt); got2 != got {
					c.Fatalf("C12: detector map returns %v, window %v", got2, got)
				}
				if silence < 20*mn && !(got < 20) {
					c.Fatalf("C12 accuracy: silence %dns is below 20x the smallest recent interval %dns but phi=%v crosses the threshold", silence, mn, got)
				}
				if silence > 20*mx && !(got > 20) {
					c.Fatalf("C12 completeness: silence %dns exceeds 20x the largest recent interval %dns but phi=%v does not cross the threshold", silence, mx, got)
				}
				if q > 0 && ((silence > prevS && got < prev) || (silence < prevS && got > prev)) {
					c.Fatalf("C12: phi not monotone in time: silence %d -> %v, %d -> %v", prevS, prev, silence, got)
				}
				prev, prevS = got, silence
			}
		}
		for i := 1; i < n; i++ {
			iv := drawInterval(c, "iv")
			now = now.Add(time.Duration(iv))
			intervals = append(intervals, iv)
			w.Add(now)
			fd.ReportWithTimestamp(id, now)
			if i == n-1 || c.Chance("checkHere", 1, 6) {
				check("after arrival")
			}
		}
		if n == 1 {
			check("single arrival")
		}
		c.Stepf("window=%d bootstrap=%dns intervals=%v", W, bootstrap, intervals)

		// detector map: unknown node is bootstrapped at query time; Remove forgets
		q0 := now.Add(time.Second)
		if p := fd.SuspicionLevelAt("unknown", q0); p != 0 {
			c.Fatalf("C12: first query for an unknown node gives %v, want 0", p)
		}
		s := drawInterval(c, "unknownSilence")
		if p := fd.SuspicionLevelAt("unknown", q0.Add(time.Duration(s))); !closeTo(p, new(big.Rat).SetFrac64(s, bootstrap)) {
			c.Fatalf("C12: never-heard node after %dns: phi=%v want silence/bootstrap=%v", s, p, float64(s)/float64(bootstrap))
		}
		// ... and is then heard from for the first time (liveness is evaluated for peers
		// known only from third parties before their first packet arrives): the window
		// still starts with the bootstrap sample. Whether the time between the first
		// query and the first arrival counts as a sample is left open.
		gap := drawInterval(c, "firstHeardGap")
		t1 := q0.Add(time.Duration(s + gap))
		fd.ReportWithTimestamp("unknown", t1)
		counted, uncounted := []int64{bootstrap, s + gap}, []int64{bootstrap}
		last := t1
		d := drawInterval(c, "steady")
		for i, m := 0, c.Int("steadyArrivals", 0, 3); i < m; i++ {
			last = last.Add(time.Duration(d))
			fd.ReportWithTimestamp("unknown", last)
			counted, uncounted = append(counted, d), append(uncounted, d)
		}
		s2 := drawInterval(c, "silenceAfterFirstHeard")
		got := fd.SuspicionLevelAt("unknown", last.Add(time.Duration(s2)))
		if !closeTo(got, refPhi(counted, W, s2)) && !closeTo(got, refPhi(uncounted, W, s2)) {
			c.Fatalf("C12: peer first queried at T, first heard %dns later, then %d arrivals %dns apart, silent for %dns: phi=%v; with the bootstrap sample %dns first in the window the level is %s (or %s if the time before the first arrival is not a sample)", s+gap, len(uncounted)-1, d, s2, got, bootstrap, refPhi(counted, W, s2).FloatString(9), refPhi(uncounted, W, s2).FloatString(9))
		}
		c.Class("queried-before-first-heard")
		fd.Remove(id)
		if p := fd.SuspicionLevelAt(id, now.Add(time.Hour)); p != 0 {
			c.Fatalf("C12: after Remove the node is still remembered (phi=%v)", p)
		}
	})
}

// Arrivals older than the window have no influence: two histories sharing their
// last W+1 arrivals give bit-identical levels.
func TestC12PrefixIndependence(t *testing.T) {
	vlib.SetRule("C12", "TestC12PrefixIndependence", "two generated prefixes (possibly empty) followed by the same W+1 arrivals; oracle: identical phi (bit-exact, the running sum is integral); non-trivial = both prefixes non-empty and different")
	vlib.Run(t, "C12", func(c *vlib.Case) {
		W := c.Int("window", 1, 64)
		bootstrap := drawInterval(c, "bootstrap")
		base := time.Unix(1_700_000_000, 0)
		mk := func(label string) (*gossip.VerifArrivalWindow, time.Time, []int64) {
			w := gossip.VerifNewArrivalWindow(time.Duration(bootstrap), W)
			now := base
			n := c.Int(label+"Len", 0, 3*W)
			var ivs []int64
			for i := 0; i < n; i++ {
				if i > 0 {
					iv := drawInterval(c, label+"Iv")
					ivs = append(ivs, iv)
					now = now.Add(time.Duration(iv))
				}
				w.Add(now)
			}
			return w, now, ivs
		}
		wa, ta, ia := mk("a")
		wb, tb, ib := mk("b")
		if len(ia) > 0 && len(ib) > 0 && (len(ia) != len(ib) || ia[0] != ib[0]) {
			c.NonTrivial()
		}
		// the common suffix starts after both prefixes
		start := ta
		if tb.After(start) {
			start = tb
		}
		start = start.Add(time.Duration(drawInterval(c, "gap")))
		now := start
		for i := 0; i <= W; i++ {
			if i > 0 {
				now = now.Add(time.Duration(drawInterval(c, "suffixIv")))
			}
			wa.Add(now)
			wb.Add(now)
		}
		for q := 0; q < 3; q++ {
			qt := now.Add(time.Duration(drawInterval(c, "silence")))
			pa, pb := wa.Phi(qt), wb.Phi(qt)
			if pa != pb {
				c.Fatalf("C12: arrivals older than the window influence the level: %v vs %v (window=%d, prefix intervals %v vs %v)", pa, pb, W, ia, ib)
			}
		}
		c.Stepf("window=%d prefixA=%d prefixB=%d", W, len(ia), len(ib))
	})
}
