package sim

import (
	"fmt"
	"math"
	"net"
	"testing"

	"github.com/andydunstall/yamux"

	"github.com/andydunstall/piko/pkg/log"
	"github.com/andydunstall/piko/server/cluster"
	"github.com/andydunstall/piko/server/config"
	"github.com/andydunstall/piko/server/upstream"

	"verif/harness/vlib"
)

// C19: one Rebalance() step on the real upstream server with real yamux
// sessions and a generated cluster view.
func TestC19Rebalance(t *testing.T) {
	vlib.SetRule("C19", "TestC19Rebalance", "threshold in (0,3] (incl. values that put the balance exactly on the threshold), shed rate in [0,1], minimum 0-60, 0-80 local yamux sessions registered on the real upstream server, a cluster view of 0-5 other nodes with drawn status (active / unreachable / left) and connection counts (incl. views whose whole-number average is 0); 1-4 consecutive Rebalance() steps (closed connections are deregistered in between); oracle per step from the statement with A = floor(sum of conns of active nodes / number of active nodes): sessions closed by one Rebalance() == 0 unless other nodes are known, L > 0, L >= min and (A == 0 or (L-A)/A >= threshold); closed <= min(L, max(1, ceil(A*rate))); L <= A implies 0; balances within 1e-9 of the threshold accept either outcome; non-trivial = L > A with the balance within +-0.5 of the threshold, or A == 0, or a non-active node with connections in the view")
	vlib.Run(t, "C19", func(c *vlib.Case) {
		L := c.Int("local", 0, 80)
		if c.Chance("smallLocal", 1, 3) {
			L = c.Int("localSmall", 0, 6)
		}
		min := c.Int("minConns", 0, 60)
		if c.Chance("minZero", 1, 2) {
			min = 0
		}
		rate := float64(c.Int("shedRatePermille", 0, 1000)) / 1000
		cs := cluster.NewState(&cluster.Node{ID: "local", ProxyAddr: "p", AdminAddr: "a"}, log.NewNopLogger())
		for i := 0; i < L; i++ {
			cs.AddLocalEndpoint(fmt.Sprintf("e%d", i%3))
		}
		others := c.Int("otherNodes", 0, 5)
		activeN, activeSum := 1, L
		nonActiveWithConns := false
		for i := 0; i < others; i++ {
			st := []cluster.NodeStatus{cluster.NodeStatusActive, cluster.NodeStatusActive, cluster.NodeStatusUnreachable, cluster.NodeStatusLeft}[c.Pick("status", 4)]
			conns := c.Int("conns", 0, 80)
			if c.Chance("connsZero", 1, 4) {
				conns = 0
			}
			n := &cluster.Node{ID: fmt.Sprintf("r%d", i), Status: st, ProxyAddr: "p", AdminAddr: "a", Endpoints: map[string]int{}}
			if conns > 0 {
				n.Endpoints["e0"] = conns / 2
				n.Endpoints["e1"] = conns - conns/2
			}
			cs.AddNode(n)
			if st == cluster.NodeStatusActive {
				activeN++
				activeSum += conns
			} else if conns > 0 {
				nonActiveWithConns = true
			}
			c.Stepf("node r%d status=%s conns=%d", i, st, conns)
		}
		A := activeSum / activeN
		// threshold: either free, or placed exactly on / next to the balance
		threshold := float64(c.Int("thresholdMilli", 1, 3000)) / 1000
		var balance float64
		if A > 0 {
			balance = float64(L-A) / float64(A)
			if L > A && c.Chance("thresholdOnBalance", 1, 3) {
				threshold = balance + []float64{0, 0, 1e-12, -1e-12, 0.001, -0.001, 0.3, -0.3}[c.Pick("thresholdDelta", 8)]
				if threshold <= 0 {
					threshold = 0.0005
				}
			}
		} else {
			balance = math.Inf(1)
		}
		conf := config.UpstreamConfig{Rebalance: config.RebalanceConfig{Threshold: threshold, ShedRate: rate, MinConns: uint(min)}}
		srv := upstream.NewServer(upstream.NewLoadBalancedManager(cs, nil), nil, nil, cs, conf, log.NewNopLogger())
		var sessions []*yamux.Session
		var pipes []net.Conn
		defer func() {
			for _, s := range sessions {
				s.Close()
			}
			for _, p := range pipes {
				p.Close()
			}
		}()
		for i := 0; i < L; i++ {
			a, b := net.Pipe()
			pipes = append(pipes, a, b)
			cfg := yamux.DefaultConfig()
			cfg.EnableKeepAlive = false
			cfg.LogOutput = nil
			cfg.Logger = log.NewNopLogger().StdLogger(0)
			s, err := yamux.Server(a, cfg)
			if err != nil {
				c.Harnessf("yamux: %v", err)
			}
			sessions = append(sessions, s)
			srv.VerifAddSession(s)
		}
		c.Header["L"], c.Header["A"], c.Header["threshold"], c.Header["rate"], c.Header["min"], c.Header["other_nodes"] = L, A, threshold, rate, min, others
		// several consecutive steps: after each one the closed connections are taken off
		// the registry and the routing table (as their handlers would) and the
		// statement applies afresh to what is left
		removed := map[int]bool{}
		otherSum, otherN := activeSum-L, activeN-1
		for step, steps := 0, c.Int("steps", 1, 4); step < steps; step++ {
			if step > 0 {
				A = (otherSum + L) / (otherN + 1)
				activeSum, activeN = otherSum+L, otherN+1
				if A > 0 {
					balance = float64(L-A) / float64(A)
				} else {
					balance = math.Inf(1)
				}
				c.Class("consecutive-steps")
			}
			srv.Rebalance()
			closed := 0
			for i, s := range sessions {
				if s.IsClosed() && !removed[i] {
					closed++
				}
			}
			c.Stepf("L=%d A=%d (sum %d over %d active) threshold=%v rate=%v min=%d -> closed %d", L, A, activeSum, activeN, threshold, rate, min, closed)
			if (L > A && A > 0 && math.Abs(balance-threshold) <= 0.5) || (A == 0 && L > 0 && others > 0) || nonActiveWithConns {
				c.NonTrivial()
			}
			if A == 0 {
				c.Class("whole-number-average-zero")
			}
			onEdge := A > 0 && math.Abs(balance-threshold) <= 1e-9
			mayShed := others > 0 && L > 0 && L >= min && (A == 0 || balance >= threshold || onEdge)
			if closed > 0 && !mayShed {
				c.Fatalf("C19: one rebalance step closed %d of %d connections although shedding is not due: other nodes known=%d, minimum=%d, average per active node=%d (%d over %d active), balance=%v, threshold=%v", closed, L, others, min, A, activeSum, activeN, balance, threshold)
			}
			if L <= A && closed > 0 {
				c.Fatalf("C19: a node holding %d connections, at or below the average %d, shed %d", L, A, closed)
			}
			cap := int(math.Ceil(float64(A) * rate))
			if cap < 1 {
				cap = 1
			}
			if cap > L {
				cap = L
			}
			if closed > cap {
				c.Fatalf("C19: one rebalance step closed %d connections; the cap is max(1, ceil(shed rate %v x average %d)) = %d, never more than the %d open", closed, rate, A, cap, L)
			}
			if closed > 0 {
				c.Class("shed")
			}
			for i, s := range sessions {
				if s.IsClosed() && !removed[i] {
					removed[i] = true
					srv.VerifRemoveSession(s)
					cs.RemoveLocalEndpoint(fmt.Sprintf("e%d", i%3))
				}
			}
			L -= closed
		}
	})
}
