package sim

import (
	"fmt"
	"net"
	"reflect"
	"runtime"
	"strconv"
	"strings"
	"sync"
	"sync/atomic"
	"testing"
	"time"

	"github.com/andydunstall/piko/pkg/gossip"
	"github.com/andydunstall/piko/pkg/log"
	"github.com/andydunstall/piko/server/cluster"
	sgossip "github.com/andydunstall/piko/server/gossip"
	"github.com/andydunstall/piko/server/upstream"

	"github.com/andydunstall/yamux"

	"verif/harness/vlib"
)

type discardConn struct{ n atomic.Int64 }

func (c *discardConn) ReadFrom(p []byte) (int, net.Addr, error) { select {} }
func (c *discardConn) WriteTo(p []byte, a net.Addr) (int, error) {
	c.n.Add(1)
	return len(p), nil
}
func (c *discardConn) Close() error                     { return nil }
func (c *discardConn) LocalAddr() net.Addr              { return nil }
func (c *discardConn) SetDeadline(time.Time) error      { return nil }
func (c *discardConn) SetReadDeadline(time.Time) error  { return nil }
func (c *discardConn) SetWriteDeadline(time.Time) error { return nil }

// fullStack wires one node exactly as server.NewServer + gossip.New do, minus
// the sockets and the scheduler goroutines (the generated program plays them).
type fullStack struct {
	cs  *cluster.State
	mgr *upstream.LoadBalancedManager
	g   *gossip.VerifNode
}

// slowWatcher delays every notification a little before handing it to the
// real syncer: a schedule perturbation that widens any window between a state
// change and its notification (there is none while notifications are made under
// the gossip state lock, as the Watcher contract says).
type slowWatcher struct {
	next  gossip.Watcher
	delay time.Duration
}

func (w *slowWatcher) pause()                      { runtime.Gosched(); time.Sleep(w.delay) }
func (w *slowWatcher) OnJoin(id string)            { w.pause(); w.next.OnJoin(id) }
func (w *slowWatcher) OnLeave(id string)           { w.pause(); w.next.OnLeave(id) }
func (w *slowWatcher) OnReachable(id string)       { w.pause(); w.next.OnReachable(id) }
func (w *slowWatcher) OnUnreachable(id string)     { w.pause(); w.next.OnUnreachable(id) }
func (w *slowWatcher) OnExpired(id string)         { w.pause(); w.next.OnExpired(id) }
func (w *slowWatcher) OnUpsertKey(id, k, v string) { w.next.OnUpsertKey(id, k, v) }
func (w *slowWatcher) OnDeleteKey(id, k string)    { w.next.OnDeleteKey(id, k) }

func newFullStack() *fullStack { return newFullStackDelay(0) }

func newFullStackDelay(delay time.Duration) *fullStack {
	cs := cluster.NewState(&cluster.Node{ID: "n0", ProxyAddr: "p0", AdminAddr: "a0"}, log.NewNopLogger())
	st := &fullStack{cs: cs, mgr: upstream.NewLoadBalancedManager(cs, nil)}
	sy := sgossip.VerifNewSyncer(cs)
	var w gossip.Watcher = sy
	if delay > 0 {
		w = &slowWatcher{next: sy, delay: delay}
	}
	st.g = gossip.VerifNewNode("n0", "127.0.0.1:7000", 1400, gossipInterval, &discardConn{}, w)
	sy.VerifSync(st.g.State)
	return st
}

type c20op struct {
	kind  string
	a, b  int
	yield int
}

var c20Kinds = []string{"addRealConn", "closeRealConn", "addConn", "removeConn", "select", "selectRemote", "applyDelta", "applyDigestPkt", "digestDelta", "liveness", "compact", "expire", "readNodes", "readLookup", "readMeta", "readGossip", "leaveRemote"}
var c20Weights = []int{2, 2, 6, 5, 6, 3, 8, 5, 4, 3, 3, 4, 3, 3, 2, 3, 3}

func TestC20Program(t *testing.T) {
	vlib.SetRule("C20", "TestC20Program", "rapid generates a concurrent program: 3-8 goroutines, each a drawn list of operations on ONE real node stack (upstream manager + cluster state + syncer + gossip state + failure detector): upstream connect/disconnect/select (fake upstreams and real ConnUpstreams on yamux sessions whose connection drops before they are deregistered, with a request in between), incoming deltas and digest packets about 3 remote nodes (addresses, endpoint counts, deletes, leave markers), digest/delta computation, liveness evaluation, local compaction, expiry sweeps, status reads - with drawn yields, and in two fifths of the cases repeated 20 or 400 times by every goroutine; run under the race detector; oracle: no race report, no panic, every goroutine finishes (watchdog: no operation started for 20 s = deadlock), and at quiescence registry == cluster endpoints == gossip endpoint counts == model and the routing table mirrors the gossip view of every remote node; non-trivial = at least two goroutines touch both the registry and the gossip state")
	vlib.Run(t, "C20", func(c *vlib.Case) {
		st := newFullStackDelay(c.Dur("notifyDelay", 0, 20*time.Microsecond, 200*time.Microsecond))
		G := c.Int("goroutines", 3, 8)
		progs := make([][]c20op, G)
		touchReg, touchGossip := 0, 0
		for g := 0; g < G; g++ {
			reg, gos := false, false
			for i, n := 0, c.Int("ops", 2, 14); i < n; i++ {
				k := c.Weighted("op", c20Kinds, c20Weights)
				o := c20op{kind: k, a: c.Int("a", 0, 2), b: c.Int("b", 0, 3), yield: c.Int("yield", 0, 2)}
				switch k {
				case "addConn", "removeConn", "select":
					reg = true
				case "applyDelta", "applyDigestPkt", "compact", "liveness", "expire", "leaveRemote":
					gos = true
				}
				progs[g] = append(progs[g], o)
			}
			if reg {
				touchReg++
			}
			if gos {
				touchGossip++
			}
			c.Stepf("g%d: %v", g, progs[g])
		}
		if touchReg >= 2 && touchGossip >= 2 {
			c.NonTrivial()
		}
		// some programs are run many times over by every goroutine (a hammer): windows
		// of a few instructions - a lock released and re-taken, a read lock taken twice
		// - are only hit by a writer after thousands of attempts
		reps := []int{1, 1, 1, 20, 400}[c.Pick("repetitions", 5)]
		if reps > 1 {
			c.Class(fmt.Sprintf("program-repeated-%dx", reps))
		}
		c.Stepf("every goroutine runs its program %d time(s)", reps)
		var progress atomic.Int64
		var panicked atomic.Value
		var verMu sync.Mutex
		remoteVer := map[int]uint64{} // per remote node: next version (monotone across goroutines)
		nextVer := func(r int, k int) uint64 {
			verMu.Lock()
			defer verMu.Unlock()
			v := remoteVer[r] + 1
			remoteVer[r] = v + uint64(k)
			return v
		}
		type reg struct {
			u       *fakeUp
			removed atomic.Bool
		}
		var regMu sync.Mutex
		regs := map[*fakeUp]*reg{}
		type realConn struct {
			u       *upstream.ConnUpstream
			ep      string
			sess    *yamux.Session
			peer    net.Conn
			closing bool
			removed atomic.Bool
		}
		var realMu sync.Mutex
		var reals []*realConn
		defer func() {
			for _, r := range reals {
				r.peer.Close()
				r.sess.Close()
			}
		}()
		var wg sync.WaitGroup
		done := make(chan struct{})
		for g := 0; g < G; g++ {
			wg.Add(1)
			go func(g int) {
				defer wg.Done()
				defer func() {
					if r := recover(); r != nil {
						panicked.Store(fmt.Sprintf("goroutine %d: %v", g, r))
					}
				}()
				var own []*reg
				for rep := 0; rep < reps; rep++ {
					for _, o := range progs[g] {
						progress.Add(1)
						for y := 0; y < o.yield; y++ {
							runtime.Gosched()
						}
						rid := fmt.Sprintf("r%d", o.a)
						raddr := fmt.Sprintf("127.0.0.1:%d", 7100+o.a)
						ep := simEps[o.a]
						if rep >= 20 && (o.kind == "addRealConn" || o.kind == "closeRealConn") {
							continue // real sessions are expensive: not in the long hammer
						}
						switch o.kind {
						case "addRealConn":
							// a real ConnUpstream: a yamux session over an in-memory pipe, as the
							// upstream server registers for a connected listener
							a, b := net.Pipe()
							cfg := yamux.DefaultConfig()
							cfg.EnableKeepAlive = false
							cfg.LogOutput = nil
							cfg.Logger = log.NewNopLogger().StdLogger(0)
							sess, err := yamux.Server(a, cfg)
							if err != nil {
								panic(err)
							}
							cu := upstream.NewConnUpstream(ep, sess)
							st.mgr.AddConn(cu)
							// (listed only once registered: a removal must not overtake the registration)
							realMu.Lock()
							reals = append(reals, &realConn{u: cu, ep: ep, sess: sess, peer: b})
							realMu.Unlock()
						case "closeRealConn":
							// the listener's connection drops: the session closes, and only afterwards
							// (as in the upstream server's handler) is the upstream deregistered
							realMu.Lock()
							var rc *realConn
							for _, r := range reals {
								if !r.closing {
									rc = r
									r.closing = true
									break
								}
							}
							realMu.Unlock()
							if rc != nil {
								rc.peer.Close()
								rc.sess.Close()
								for y := 0; y <= o.b; y++ {
									runtime.Gosched()
								}
								if o.b%2 == 0 {
									st.mgr.Select(rc.ep, false) // a request arrives in between
								}
								st.mgr.RemoveConn(rc.u)
								rc.removed.Store(true)
							}
						case "addConn":
							r := &reg{u: &fakeUp{ep: ep, id: g*100 + len(own)}}
							own = append(own, r)
							regMu.Lock()
							regs[r.u] = r
							regMu.Unlock()
							st.mgr.AddConn(r.u)
						case "removeConn":
							if len(own) > 0 {
								r := own[o.b%len(own)]
								r.removed.Store(true)
								st.mgr.RemoveConn(r.u)
							}
						case "select":
							if u, ok := st.mgr.Select(ep, false); ok && u == nil {
								panic("select returned ok with nil upstream")
							}
						case "selectRemote":
							st.mgr.Select(ep, true)
						case "applyDelta":
							v := nextVer(o.a, 3)
							es := []gossip.Entry{{Key: "proxy_addr", Value: "p-" + rid, Version: v}, {Key: "admin_addr", Value: "a-" + rid, Version: v + 1}}
							if o.b%2 == 0 {
								es = append(es, gossip.Entry{Key: "endpoint:" + simEps[o.b%3], Value: strconv.Itoa(1 + o.b), Version: v + 2})
							} else {
								es = append(es, gossip.Entry{Key: "endpoint:" + simEps[o.b%3], Version: v + 2, Deleted: true})
							}
							b, _ := gossip.VerifEncodeDelta(rid, raddr, gossip.VerifDelta{{ID: rid, Addr: raddr, Entries: es}}, 1400)
							_ = st.g.HandlePacket(b)
						case "applyDigestPkt":
							b, _ := gossip.VerifEncodeDigest(rid, raddr, o.b%2 == 0, gossip.VerifDigest{{ID: rid, Addr: raddr, Version: uint64(o.b)}, {ID: "n0", Addr: "127.0.0.1:7000", Version: 0}}, 1400)
							_ = st.g.HandlePacket(b)
						case "digestDelta":
							d := st.g.State.Digest()
							_ = st.g.State.Delta(d, o.b%2 == 0)
						case "liveness":
							st.g.State.UpdateLiveness(gossip.VerifSuspicionThreshold)
						case "compact":
							st.g.State.CompactLocal(1)
						case "expire":
							st.g.State.RemoveExpiredAt(time.Now().Add(time.Duration(o.b) * time.Hour))
						case "readNodes":
							for _, n := range st.cs.Nodes() {
								_ = n.Endpoints[ep]
							}
							st.cs.Node(rid)
						case "readLookup":
							st.cs.LookupEndpoint(ep)
							st.cs.AvgConns()
						case "readMeta":
							st.cs.NodesMetadata()
							st.mgr.Endpoints()
						case "readGossip":
							st.g.State.Nodes()
							st.g.State.Node(rid)
							st.g.State.LocalNode()
						case "leaveRemote":
							v := nextVer(o.a, 1)
							b, _ := gossip.VerifEncodeDelta(rid, raddr, gossip.VerifDelta{{ID: rid, Addr: raddr, Entries: []gossip.Entry{{Key: gossip.VerifLeftKey, Version: v, Internal: true}}}}, 1400)
							_ = st.g.HandlePacket(b)
						}
					}
				}
			}(g)
		}
		go func() { wg.Wait(); close(done) }()
		// watchdog: no operation started for 20 s while goroutines are still pending
		for finished, last, lastAt := false, int64(-1), time.Now(); !finished; {
			select {
			case <-done:
				finished = true
			case <-time.After(250 * time.Millisecond):
				if p := progress.Load(); p != last {
					last, lastAt = p, time.Now()
				} else if time.Since(lastAt) > 20*time.Second {
					buf := make([]byte, 1<<16)
					n := runtime.Stack(buf, true)
					c.Fatalf("C20: the concurrent program hangs: no operation was started for 20 s while goroutines are still pending (deadlock)\n%s", buf[:n])
				}
			}
		}
		if p := panicked.Load(); p != nil {
			c.Fatalf("C20: panic under concurrent operation: %v", p)
		}
		// quiescence: registry == cluster == gossip == model
		want := map[string]int{}
		for u, r := range regs {
			if !r.removed.Load() {
				want[u.ep]++
			}
		}
		for _, r := range reals {
			if !r.removed.Load() {
				want[r.ep]++
			}
		}
		if got := st.mgr.Endpoints(); !reflect.DeepEqual(got, want) {
			c.Fatalf("C20: at quiescence the registry holds %v, upstreams actually registered %v", got, want)
		}
		loc := st.cs.LocalNode().Endpoints
		if loc == nil {
			loc = map[string]int{}
		}
		if !reflect.DeepEqual(loc, want) {
			c.Fatalf("C20: at quiescence the routing table advertises %v locally, registered %v", loc, want)
		}
		gl := map[string]int{}
		for _, e := range st.g.State.LocalNode().Entries {
			if strings.HasPrefix(e.Key, "endpoint:") && !e.Deleted {
				n, _ := strconv.Atoi(e.Value)
				gl[strings.TrimPrefix(e.Key, "endpoint:")] = n
			}
		}
		if !reflect.DeepEqual(gl, want) {
			c.Fatalf("C20: at quiescence the published gossip state advertises %v, registered %v", gl, want)
		}
		// routing table mirrors the gossip view of every known remote node
		for _, m := range st.g.State.Nodes() {
			if m.ID == "n0" {
				continue
			}
			view, _ := st.g.State.Node(m.ID)
			eps := map[string]int{}
			hasProxy, hasAdmin := false, false
			for _, e := range view.Entries {
				switch {
				case e.Key == "proxy_addr" && !e.Deleted:
					hasProxy = true
				case e.Key == "admin_addr" && !e.Deleted:
					hasAdmin = true
				case strings.HasPrefix(e.Key, "endpoint:") && !e.Deleted:
					n, _ := strconv.Atoi(e.Value)
					eps[strings.TrimPrefix(e.Key, "endpoint:")] = n
				}
			}
			rn, inTable := st.cs.Node(m.ID)
			if hasProxy && hasAdmin && !inTable && !m.Left {
				c.Fatalf("C20: at quiescence gossip knows %s with both addresses but the routing table does not list it", m.ID)
			}
			if inTable {
				got := rn.Endpoints
				if got == nil {
					got = map[string]int{}
				}
				if !reflect.DeepEqual(got, eps) {
					c.Fatalf("C20: at quiescence the routing table lists %v for %s, the gossip view says %v", got, m.ID, eps)
				}
				wantSt := cluster.NodeStatusActive
				if m.Left {
					wantSt = cluster.NodeStatusLeft
				} else if m.Unreachable {
					wantSt = cluster.NodeStatusUnreachable
				}
				if rn.Status != wantSt {
					c.Fatalf("C20: at quiescence routing status of %s is %s, gossip flags say %s", m.ID, rn.Status, wantSt)
				}
			}
		}
		for _, n := range st.cs.Nodes() {
			if n.ID != "n0" {
				if _, known := st.g.State.Node(n.ID); !known {
					c.Fatalf("C20: at quiescence the routing table lists %s which gossip has forgotten", n.ID)
				}
			}
		}
	})
}
