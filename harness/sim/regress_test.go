package sim

import (
	"testing"
	"time"

	"github.com/andydunstall/piko/pkg/gossip"

	"verif/harness/vlib"
)

// D1 (fixed): removing an upstream twice while a sibling stays registered.
func TestRegressD1(t *testing.T) {
	vlib.SetRule("C05", "TestRegressD1", "fixed regression case of finding D1: AddConn(u1,e) AddConn(u2,e) RemoveConn(u1) RemoveConn(u1)")
	vlib.Fixed(t, "C05", false, func(c *vlib.Case) {
		st := newStack()
		u1, u2 := &fakeUp{ep: "e0", id: 1}, &fakeUp{ep: "e0", id: 2}
		c.Stepf("AddConn(u1,e0) AddConn(u2,e0) RemoveConn(u1) RemoveConn(u1)")
		st.mgr.AddConn(u1)
		st.mgr.AddConn(u2)
		st.mgr.RemoveConn(u1)
		st.check(c, map[string]int{"e0": 1}, "after the first removal")
		st.mgr.RemoveConn(u1)
		st.check(c, map[string]int{"e0": 1}, "after the repeated removal")
		st.mgr.RemoveConn(u2)
		st.check(c, map[string]int{}, "after removing the sibling")
	})
}

// F3 (known finding, demonstration): a delta answering a pre-expiry digest is
// applied after the observer forgot the subject.
func TestKnownF3(t *testing.T) {
	vlib.SetRule("C02", "TestKnownF3", "fixed demonstration of known finding F3: observer's digest answered by a delta, observer expires the subject, the delta is then delivered")
	vlib.Fixed(t, "C02", true, func(c *vlib.Case) {
		p := &Profile{Prop: "C02", Oracles: map[string]bool{}}
		s := NewFixed(c, p, []int{1400, 1400})
		obs, sub := s.nodes[1], s.nodes[0]
		sub.n.State.UpsertLocal("k1", "v1")
		s.snapshotLocal(sub)
		// observer catches up with k1
		_ = obs.n.GossipTo(gossip.NodeMetadata{ID: sub.id, Addr: sub.addr})
		for len(s.q) > 0 {
			s.deliverIdx(0)
		}
		s.checkAll()
		sub.n.State.UpsertLocal("k2", "v2")
		s.snapshotLocal(sub)
		// digest of the observer (subject at the old version) is answered; the answer stays in flight
		_ = obs.n.GossipTo(gossip.NodeMetadata{ID: sub.id, Addr: sub.addr})
		s.deliverIdx(0) // digest -> subject; replies (delta, digest) are now in flight
		var held []pkt
		for _, q := range s.q {
			if q.b[0] == 2 {
				held = append(held, q)
			}
		}
		s.q = nil
		if len(held) != 1 {
			c.Harnessf("expected one delta in flight, have %d", len(held))
		}
		// the observer stops hearing from the subject, flags it and forgets it
		time.Sleep(10 * time.Second)
		s.doLiveness(obs)
		s.afterAction()
		time.Sleep(61 * time.Second)
		s.doSweep(obs)
		s.afterAction()
		s.checkAll()
		if _, known := obs.n.State.Node(sub.id); known {
			c.Harnessf("observer did not forget the subject")
		}
		// deliver the stale delta by hand (the engine would drop it)
		if err := obs.n.HandlePacket(held[0].b); err != nil {
			c.Harnessf("delta rejected: %v", err)
		}
		view, known := obs.n.State.Node(sub.id)
		if !known {
			return // not reproduced: the stale delta was ignored
		}
		own := sub.n.State.LocalNode()
		missing := 0
		have := entriesMap(view)
		for _, e := range own.Entries {
			if e.Version <= view.Version {
				if g, ok := have[e.Key]; !ok || g != e {
					missing++
				}
			}
		}
		c.Stepf("observer reports %s at version %d with %d entries; %d entries at or below that version are missing", sub.id, view.Version, len(view.Entries), missing)
		if missing > 0 {
			if !c.Known("F3", "a delta answering a pre-expiry digest applied after the observer forgot the subject leaves a view that reports version v but lacks entries <= v") {
				c.Fatalf("C02 loss: after a stale delta %s reports %s up to version %d but lacks %d of the owner's entries at or below it", obs.id, sub.id, view.Version, missing)
			}
		}
	})
}

// F2 (known finding, demonstration): a crashed and expired node is re-learned
// from a peer's digest.
func TestKnownF2(t *testing.T) {
	vlib.SetRule("C11", "TestKnownF2", "fixed demonstration of known finding F2: A and B know X, X crashes, A flags and expires X, B (still listing X) gossips with A")
	vlib.Fixed(t, "C11", true, func(c *vlib.Case) {
		p := &Profile{Prop: "C11", Oracles: map[string]bool{}}
		s := NewFixed(c, p, []int{1400, 1400, 1400})
		a, b, x := s.nodes[0], s.nodes[1], s.nodes[2]
		// everyone learns everyone
		for _, from := range s.nodes {
			for _, to := range s.nodes {
				if from != to {
					_ = from.n.GossipTo(gossip.NodeMetadata{ID: to.id, Addr: to.addr})
					for len(s.q) > 0 {
						s.deliverIdx(0)
					}
				}
			}
		}
		x.crashed = true
		time.Sleep(10 * time.Second)
		s.doLiveness(a)
		s.afterAction()
		time.Sleep(61 * time.Second)
		s.doSweep(a)
		s.afterAction()
		if _, known := a.n.State.Node(x.id); known {
			c.Harnessf("A did not expire X")
		}
		// B never evaluated liveness: it still lists X as live and gossips with A
		_ = b.n.GossipTo(gossip.NodeMetadata{ID: a.id, Addr: a.addr})
		for len(s.q) > 0 {
			p := s.q[0]
			s.q = s.q[1:]
			if dst := s.byAddr[p.to]; dst != nil && !dst.crashed {
				_ = dst.n.HandlePacket(p.b)
			}
		}
		if m, known := a.n.State.Node(x.id); known && !m.Left {
			c.Stepf("A knows the crashed and expired X again (version %d, unreachable=%v)", m.Version, m.Unreachable)
			if !c.Known("F2", "a node that was expired after crashing/closing is re-introduced as live by a peer's digest entry (Left=false) although it sent nothing since") {
				c.Fatalf("C11 I6: A re-learned the crashed and expired node X from B's digest")
			}
		}
	})
}
