package sim

import "os"

func maxSteps(quick, thorough int) int {
	if os.Getenv("VERIF_TIER") == "thorough" {
		return thorough
	}
	return quick
}
