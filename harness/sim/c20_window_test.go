package sim

import (
	"fmt"
	"sort"
	"strings"
	"sync"
	"sync/atomic"
	"testing"
	"time"

	"github.com/andydunstall/piko/pkg/gossip"

	"verif/harness/vlib"
)

// TestC20Window owns the schedule at the points where the gossip state calls
// out of itself (failure detector, watcher): one operation is parked at a drawn
// call-out while a second operation is started on another goroutine. Whatever
// the implementation lets the second operation do in that window, the outcome -
// the state's view of every node and the sequence of notifications the watcher
// received - must be the outcome of running the two operations one after the
// other in one of the two orders ("the routing table, the registry and the
// gossip state remain mutually consistent": the watcher's sequence is what the
// routing table is built from).

type winEvent = string

type winWatcher struct {
	mu   sync.Mutex
	log  []winEvent
	hook func(point string)
}

func (w *winWatcher) add(e string) {
	w.mu.Lock()
	w.log = append(w.log, e)
	w.mu.Unlock()
	if w.hook != nil {
		w.hook(e)
	}
}
func (w *winWatcher) OnJoin(id string)            { w.add("join " + id) }
func (w *winWatcher) OnLeave(id string)           { w.add("leave " + id) }
func (w *winWatcher) OnReachable(id string)       { w.add("reachable " + id) }
func (w *winWatcher) OnUnreachable(id string)     { w.add("unreachable " + id) }
func (w *winWatcher) OnUpsertKey(id, k, v string) { w.add("upsert " + id + " " + k + "=" + v) }
func (w *winWatcher) OnDeleteKey(id, k string)    { w.add("delete " + id + " " + k) }
func (w *winWatcher) OnExpired(id string)         { w.add("expired " + id) }

type winPeerWrite struct {
	op, key, val string
}

type winPlan struct {
	peers    int
	warm     [][]winPeerWrite // per peer, before the observer learns it
	levels0  []int            // suspicion of each peer at the warm-up liveness round (0 or 100)
	warmLive bool
	late     [][]winPeerWrite // per peer, written after the observer learned it (pending deltas)
	levels1  []int
	op1, op2 string
	parkAt   int
}

type winWorld struct {
	s     *gossip.VerifClusterState
	fd    *gossip.VerifHookFD
	w     *winWatcher
	peers []*gossip.VerifClusterState
	mid   []gossip.VerifDelta // each peer's full delta as of the middle of its later writes
}

func buildWinWorld(p *winPlan) *winWorld {
	wd := &winWorld{fd: &gossip.VerifHookFD{}, w: &winWatcher{}}
	wd.s = gossip.VerifNewStateFD("obs", "10.0.0.9:1", wd.fd, wd.w)
	for i := 0; i < p.peers; i++ {
		ps := gossip.VerifNewStateFD(fmt.Sprintf("p%d", i), fmt.Sprintf("10.0.0.%d:1", i+1), &gossip.VerifHookFD{}, nil)
		for _, wr := range p.warm[i] {
			applyWinWrite(ps, wr)
		}
		wd.peers = append(wd.peers, ps)
		wd.s.ApplyDelta(ps.LocalDelta())
		wd.fd.Set(ps.LocalNode().ID, float64(p.levels0[i]))
	}
	if p.warmLive {
		wd.s.UpdateLiveness(gossip.VerifSuspicionThreshold)
	}
	for i, ps := range wd.peers {
		for j, wr := range p.late[i] {
			if j == (len(p.late[i])+1)/2 {
				wd.mid = append(wd.mid, ps.LocalDelta())
			}
			applyWinWrite(ps, wr)
		}
		if len(wd.mid) == i {
			wd.mid = append(wd.mid, ps.LocalDelta())
		}
		wd.fd.Set(ps.LocalNode().ID, float64(p.levels1[i]))
	}
	return wd
}

func applyWinWrite(ps *gossip.VerifClusterState, wr winPeerWrite) {
	switch wr.op {
	case "upsert":
		ps.UpsertLocal(wr.key, wr.val)
	case "delete":
		ps.DeleteLocal(wr.key)
	case "leave":
		ps.LeaveLocal()
	case "compact":
		ps.CompactLocal(1)
	}
}

// run performs one named operation on the observer.
func (wd *winWorld) run(op string) {
	switch {
	case op == "liveness":
		wd.s.UpdateLiveness(gossip.VerifSuspicionThreshold)
	case op == "expire":
		wd.s.RemoveExpiredAt(time.Now().Add(2 * gossip.VerifNodeExpiry))
	case op == "local":
		wd.s.UpsertLocal("endpoint:own", "1")
	case strings.HasPrefix(op, "apply:"):
		var i int
		fmt.Sscanf(op, "apply:%d", &i)
		wd.s.ApplyDelta(wd.peers[i].LocalDelta())
	case strings.HasPrefix(op, "applymid:"):
		// an older delta of the peer, still in flight
		var i int
		fmt.Sscanf(op, "applymid:%d", &i)
		wd.s.ApplyDelta(wd.mid[i])
	case strings.HasPrefix(op, "applynew:"):
		// what the peer would answer to the observer's own digest
		var i int
		fmt.Sscanf(op, "applynew:%d", &i)
		wd.s.ApplyDelta(wd.peers[i].Delta(wd.s.Digest(), true))
	}
}

func (wd *winWorld) view() string {
	var b strings.Builder
	ids := []string{"obs"}
	for _, ps := range wd.peers {
		ids = append(ids, ps.LocalNode().ID)
	}
	for _, id := range ids {
		n, ok := wd.s.Node(id)
		if !ok {
			fmt.Fprintf(&b, "%s: absent\n", id)
			continue
		}
		var es []string
		for _, e := range n.Entries {
			es = append(es, fmt.Sprintf("%s=%s@%d del=%v int=%v", e.Key, e.Value, e.Version, e.Deleted, e.Internal))
		}
		sort.Strings(es)
		fmt.Fprintf(&b, "%s: version=%d left=%v unreachable=%v expiry-set=%v entries=%v\n", id, n.Version, n.Left, n.Unreachable, !n.Expiry.IsZero(), es)
	}
	// notifications in order, separately for each node's membership events and for
	// each of its keys: the state visits nodes, and a compaction's discarded keys, in
	// map order, so the order between notifications about different nodes or
	// different keys is not defined
	wd.w.mu.Lock()
	per := map[string][]string{}
	for _, e := range wd.w.log {
		f := strings.SplitN(e, " ", 3)
		subject := f[1]
		if f[0] == "upsert" || f[0] == "delete" {
			subject += " key " + strings.SplitN(f[2], "=", 2)[0]
		}
		per[subject] = append(per[subject], e)
	}
	wd.w.mu.Unlock()
	var subjects []string
	for k := range per {
		subjects = append(subjects, k)
	}
	sort.Strings(subjects)
	for _, k := range subjects {
		fmt.Fprintf(&b, "watcher about %s: %s\n", k, strings.Join(per[k], " | "))
	}
	return b.String()
}

func TestC20Window(t *testing.T) { windowTest(t, "C20", "TestC20Window") }

// TestC04Window: the same overlap decided for C04 - the routing table is built
// from the watcher's notifications, so a notification sequence about a node that
// no sequential order produces leaves the table out of step with what that node
// advertises (and nothing later corrects it: gossip is already up to date).
func TestC04Window(t *testing.T) { windowTest(t, "C04", "TestC04Window") }

func windowTest(t *testing.T, prop, name string) {
	vlib.SetRule(prop, name, "schedule-owning test of one real gossip state with a scripted failure detector and a recording watcher: 1-3 peers with drawn histories (writes, deletions, compaction, leave) are learned, a liveness round may mark some unreachable, the peers write more (incl. leaving); then two drawn operations on the observer (liveness evaluation, applying a peer's full or incremental delta or an older full delta of it that is still in flight, expiry sweep, a local write) are overlapped: the first is parked at a drawn call-out (k-th call to the failure detector or the watcher) while the second runs on another goroutine for up to 20 ms; oracle: the final state view (per node version, left, unreachable, expiry set, entries) and the watcher's notification sequences (per node for membership events, per node and key for key events) equal those of running the two operations sequentially in one of the two orders on identically built copies; non-trivial = the first operation reached the parking point and the two sequential orders differ")
	vlib.Run(t, prop, func(c *vlib.Case) {
		p := &winPlan{peers: c.Int("peers", 1, 3)}
		drawWrites := func(tag string, n int, allowLeave bool) []winPeerWrite {
			var ws []winPeerWrite
			for i := 0; i < n; i++ {
				kinds, weights := []string{"upsert", "delete", "compact"}, []int{6, 2, 1}
				if allowLeave {
					kinds, weights = append(kinds, "leave"), append(weights, 3)
				}
				wr := winPeerWrite{op: c.Weighted(tag+"Op", kinds, weights), key: "endpoint:" + c.OneOf(tag+"Key", "a", "b", "c"), val: fmt.Sprint(c.Int(tag+"Val", 0, 3))}
				ws = append(ws, wr)
				if wr.op == "leave" {
					break
				}
			}
			return ws
		}
		for i := 0; i < p.peers; i++ {
			p.warm = append(p.warm, drawWrites("warm", c.Int("warmWrites", 0, 4), false))
			p.levels0 = append(p.levels0, 100*c.Pick("suspect0", 2))
		}
		p.warmLive = c.Bool("warmLiveness")
		for i := 0; i < p.peers; i++ {
			p.late = append(p.late, drawWrites("late", c.Int("lateWrites", 0, 6), true))
			p.levels1 = append(p.levels1, 100*c.Pick("suspect1", 2))
		}
		ops := []string{"liveness", "expire", "local"}
		for i := 0; i < p.peers; i++ {
			ops = append(ops, fmt.Sprintf("apply:%d", i), fmt.Sprintf("applynew:%d", i), fmt.Sprintf("applymid:%d", i))
		}
		weights := make([]int, len(ops))
		for i := range weights {
			weights[i] = 2
		}
		weights[0], weights[2] = 5, 1
		p.op1 = c.Weighted("op1", ops, weights)
		p.op2 = c.Weighted("op2", ops, weights)
		p.parkAt = c.Int("parkAt", 0, 5)
		if c.Chance("staleDeltaInFlight", 1, 3) {
			// directed shape: an older delta of a peer is being applied while a newer one arrives
			i := c.Pick("stalePeer", p.peers)
			p.op1, p.op2 = fmt.Sprintf("applymid:%d", i), fmt.Sprintf("apply:%d", i)
			if c.Bool("newerFirst") {
				p.op1, p.op2 = p.op2, p.op1
			}
			p.parkAt = c.Int("staleParkAt", 0, 2)
			c.Class("stale-delta-in-flight")
		}
		c.Header["plan"] = fmt.Sprintf("%+v", *p)

		seq := func(a, b string) string {
			wd := buildWinWorld(p)
			wd.run(a)
			wd.run(b)
			return wd.view()
		}
		v12, v21 := seq(p.op1, p.op2), seq(p.op2, p.op1)

		wd := buildWinWorld(p)
		var calls atomic.Int64
		var parked atomic.Bool
		done2 := make(chan struct{})
		launch := func() {
			go func() {
				defer close(done2)
				wd.run(p.op2)
			}()
		}
		hook := func(point string) {
			if calls.Add(1)-1 != int64(p.parkAt) || !parked.CompareAndSwap(false, true) {
				return
			}
			c.Stepf("%s parked at call-out %d (%s); %s starts on another goroutine", p.op1, p.parkAt, point, p.op2)
			launch()
			select {
			case <-done2:
				c.Class("second-op-completed-inside-window")
			case <-time.After(20 * time.Millisecond):
			}
		}
		wd.fd.Hook, wd.w.hook = hook, hook
		wd.run(p.op1)
		if !parked.CompareAndSwap(false, true) {
			if v12 != v21 {
				c.NonTrivial()
			}
		} else {
			c.Class("first-op-made-fewer-call-outs")
			launch()
		}
		select {
		case <-done2:
		case <-time.After(20 * time.Second):
			c.Fatalf("%s: deadlock: %s, started while %s was at a call-out, has not returned after 20 s", prop, p.op2, p.op1)
		}
		wd.fd.Hook, wd.w.hook = nil, nil
		got := wd.view()
		if got != v12 && got != v21 {
			c.Fatalf("%s: overlapping %q (parked at its call-out %d) with %q leaves a state / notification sequence that neither sequential order produces.\n--- overlapped:\n%s--- %s then %s:\n%s--- %s then %s:\n%s", prop, p.op1, p.parkAt, p.op2, got, p.op1, p.op2, v12, p.op2, p.op1, v21)
		}
	})
}
