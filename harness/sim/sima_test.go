package sim

import (
	"fmt"
	"math/rand"
	"net"
	"reflect"
	"sync"
	"testing"
	"time"

	"github.com/andydunstall/piko/pkg/gossip"
	"github.com/andydunstall/piko/pkg/log"

	"verif/harness/vlib"
)

// SIMA: the real gossip.New (scheduler goroutines, packet listener, failure
// detector, four periodic tasks, global-rand peer selection) over a channel
// network, inside the synctest bubble (virtual time).

type chanNet struct {
	mu    sync.Mutex
	nodes map[string]*chanPC
	rng   *rand.Rand
	loss  int // percent
	dup   int // percent
	sent  int
	lost  int
	// side: during a partition, the group (1 or 2) of each address; packets between
	// different groups are lost. Empty = no partition.
	side map[string]int
}

type chanPC struct {
	net    *chanNet
	addr   string
	ch     chan []byte
	closed chan struct{}
	once   sync.Once
	down   bool
}

type strAddr string

func (a strAddr) Network() string { return "udp" }
func (a strAddr) String() string  { return string(a) }

func (p *chanPC) ReadFrom(b []byte) (int, net.Addr, error) {
	select {
	case m := <-p.ch:
		n := copy(b, m)
		return n, strAddr("peer"), nil
	case <-p.closed:
		return 0, nil, net.ErrClosed
	}
}

func (p *chanPC) WriteTo(b []byte, a net.Addr) (int, error) {
	nw := p.net
	nw.mu.Lock()
	dst := nw.nodes[a.String()]
	nw.sent++
	drop := nw.rng.Intn(100) < nw.loss
	dup := nw.rng.Intn(100) < nw.dup
	if p.down || dst == nil || dst.down {
		drop = true
	}
	if len(nw.side) > 0 && nw.side[p.addr] != nw.side[a.String()] {
		drop = true
	}
	if drop {
		nw.lost++
	}
	nw.mu.Unlock()
	if drop {
		return len(b), nil
	}
	m := append([]byte(nil), b...)
	for i := 0; i < 1+map[bool]int{true: 1}[dup]; i++ {
		select {
		case dst.ch <- m:
		default: // receive buffer full: the datagram is lost
		}
	}
	return len(b), nil
}
func (p *chanPC) Close() error                     { p.once.Do(func() { close(p.closed) }); return nil }
func (p *chanPC) LocalAddr() net.Addr              { return strAddr(p.addr) }
func (p *chanPC) SetDeadline(time.Time) error      { return nil }
func (p *chanPC) SetReadDeadline(time.Time) error  { return nil }
func (p *chanPC) SetWriteDeadline(time.Time) error { return nil }

type idleListener struct {
	closed chan struct{}
	once   sync.Once
}

func (l *idleListener) Accept() (net.Conn, error) { <-l.closed; return nil, net.ErrClosed }
func (l *idleListener) Close() error              { l.once.Do(func() { close(l.closed) }); return nil }
func (l *idleListener) Addr() net.Addr            { return strAddr("stream") }

type nopW struct{}

func (nopW) OnJoin(string)                      {}
func (nopW) OnLeave(string)                     {}
func (nopW) OnReachable(string)                 {}
func (nopW) OnUnreachable(string)               {}
func (nopW) OnUpsertKey(string, string, string) {}
func (nopW) OnDeleteKey(string, string)         {}
func (nopW) OnExpired(string)                   {}

type asyncNode struct {
	id, addr string
	g        *gossip.Gossip
	pc       *chanPC
}

func startAsync(c *vlib.Case, n int, maxPacket int, seed int64) (*chanNet, []*asyncNode) {
	nw := &chanNet{nodes: map[string]*chanPC{}, rng: rand.New(rand.NewSource(seed))}
	var nodes []*asyncNode
	var dg gossip.VerifDigest
	for i := 0; i < n; i++ {
		addr := fmt.Sprintf("127.0.0.1:%d", 7000+i)
		pc := &chanPC{net: nw, addr: addr, ch: make(chan []byte, 256), closed: make(chan struct{})}
		nw.nodes[addr] = pc
		conf := &gossip.Config{BindAddr: addr, AdvertiseAddr: addr, Interval: 100 * time.Millisecond, MaxPacketSize: maxPacket}
		g := gossip.New(fmt.Sprintf("n%d", i), conf, &idleListener{closed: make(chan struct{})}, pc, nopW{}, log.NewNopLogger())
		nodes = append(nodes, &asyncNode{id: fmt.Sprintf("n%d", i), addr: addr, g: g, pc: pc})
		dg = append(dg, gossip.VerifDigestEntry{ID: fmt.Sprintf("n%d", i), Addr: addr})
	}
	for _, nd := range nodes {
		nd.g.VerifSeed(dg)
	}
	return nw, nodes
}

func TestC03Async(t *testing.T) {
	vlib.SetRule("C03", "TestC03Async", "3-5 real gossip.New instances (real scheduler goroutines, random peer selection, shuffled digests, failure detector, periodic compaction and expiry) over a channel network inside the virtual-time bubble; a drawn write/delete/compaction workload (in a third of the cases uniform entries with the packet limit set to the exact size of a delta of 4-7 of them, so that datagrams use the whole limit to the byte) runs for 20-60 virtual seconds under 10-40 % loss and 0-20 % duplication, optionally followed by a symmetric partition (two groups of >= 2 nodes, 5-40 s, writes continuing); then writes stop and the network heals; oracle: within 10 virtual minutes every node's view of every node equals that node's own state (keys, values, deletion markers, version) and no live node is considered unreachable; every case is non-trivial")
	vlib.RunSync(t, "C03", func(c *vlib.Case) {
		N := c.Int("nodes", 3, 5)
		mv := minViablePacket("n0", "127.0.0.1:7000")
		maxPacket := []int{1400, 512, mv + 60, mv + 5}[c.Pick("maxPacket", 4)]
		// exact-fit mode: the packet limit is the exact size of a delta carrying m
		// uniform entries, so the state of n0 travels in datagrams that use the whole
		// limit, to the byte (senders are entitled to)
		exactFit := c.Chance("exactFit", 1, 3)
		uniform := func(i int) (string, string) { return fmt.Sprintf("u%02d", i), "vvvvvvvv" }
		if exactFit {
			var es []gossip.Entry
			for i, m := 0, c.Int("entriesPerPacket", 4, 7); i < m; i++ {
				k, v := uniform(i)
				es = append(es, gossip.Entry{Key: k, Value: v, Version: uint64(i + 1)})
			}
			b, err := gossip.VerifEncodeDelta("n0", "127.0.0.1:7000", gossip.VerifDelta{{ID: "n0", Addr: "127.0.0.1:7000", Entries: es}}, 1<<20)
			if err != nil {
				c.Harnessf("encode: %v", err)
			}
			maxPacket = len(b)
			c.Class("exact-fit-packets")
		}
		nw, nodes := startAsync(c, N, maxPacket, int64(c.Int("netSeed", 1, 1<<30)))
		defer func() {
			for _, n := range nodes {
				_ = n.g.Close()
			}
			time.Sleep(time.Second) // let every goroutine of the bubble finish
		}()
		c.NonTrivial()
		nw.mu.Lock()
		nw.loss, nw.dup = c.Int("lossPercent", 10, 40), c.Int("dupPercent", 0, 20)
		nw.mu.Unlock()
		c.Header["nodes"], c.Header["max_packet"], c.Header["loss"] = N, maxPacket, nw.loss
		if exactFit {
			for i := 0; i < 30; i++ {
				k, v := uniform(i)
				nodes[0].g.UpsertLocal(k, v)
			}
		}
		ops := c.Int("ops", 10, 120)
		for i := 0; i < ops; i++ {
			n := nodes[c.Pick("node", N)]
			switch c.Weighted("op", []string{"upsert", "delete", "compact", "wait"}, []int{8, 3, 1, 4}) {
			case "upsert":
				if exactFit {
					k, v := uniform(c.Int("u", 0, 40))
					n.g.UpsertLocal(k, v)
					break
				}
				n.g.UpsertLocal(simKeys[c.Pick("key", len(simKeys))]+fmt.Sprint(c.Int("k", 0, 6)), s2(c))
			case "delete":
				if exactFit {
					k, _ := uniform(c.Int("u", 0, 40))
					n.g.DeleteLocal(k)
					break
				}
				n.g.DeleteLocal(simKeys[c.Pick("key", len(simKeys))] + fmt.Sprint(c.Int("k", 0, 6)))
			case "compact":
				n.g.VerifCompactLocal(c.Int("threshold", 1, 3))
			case "wait":
				time.Sleep(time.Duration(c.Int("waitMs", 10, 2000)) * time.Millisecond)
			}
		}
		// a symmetric partition: two groups of at least two nodes cannot reach each other
		// for long enough to suspect each other (but not to expire each other), keep
		// writing, and must find each other again afterwards
		if N >= 4 && c.Chance("partition", 1, 2) {
			side := map[string]int{}
			for i, n := range nodes {
				side[n.addr] = 1 + i%2
			}
			nw.mu.Lock()
			nw.side = side
			nw.mu.Unlock()
			d := time.Duration(c.Int("partitionSeconds", 5, 40)) * time.Second
			for el := time.Duration(0); el < d; el += time.Second {
				time.Sleep(time.Second)
				if c.Chance("writeDuringPartition", 1, 3) {
					n := nodes[c.Pick("node", N)]
					if exactFit {
						k, v := uniform(c.Int("u", 0, 40))
						n.g.UpsertLocal(k, v)
					} else {
						n.g.UpsertLocal(simKeys[c.Pick("key", len(simKeys))]+fmt.Sprint(c.Int("k", 0, 6)), s2(c))
					}
				}
			}
			suspected := 0
			for _, n := range nodes {
				for _, m := range n.g.Nodes() {
					if m.Unreachable {
						suspected++
					}
				}
			}
			nw.mu.Lock()
			nw.side = nil
			nw.mu.Unlock()
			c.Stepf("symmetric partition of %v: %d (observer, peer) pairs suspected at the end", d, suspected)
			if suspected > 0 {
				c.Class("healed-after-mutual-suspicion")
			}
		}
		nw.mu.Lock()
		nw.loss, nw.dup = 0, 0
		nw.mu.Unlock()
		c.Stepf("%d nodes, max packet %d, %d operations under loss; now healed", N, maxPacket, ops)
		converged := func() (bool, string) {
			for _, o := range nodes {
				want := o.g.LocalNode()
				for _, x := range nodes {
					if x == o {
						continue
					}
					got, ok := x.g.Node(o.id)
					if !ok {
						return false, fmt.Sprintf("%s does not know %s", x.id, o.id)
					}
					if got.Version != want.Version || !reflect.DeepEqual(got.Entries, want.Entries) {
						return false, fmt.Sprintf("%s sees %s at version %d (%d entries), owner is at %d (%d entries)", x.id, o.id, got.Version, len(got.Entries), want.Version, len(want.Entries))
					}
					if got.Unreachable {
						return false, fmt.Sprintf("%s still considers the live node %s unreachable", x.id, o.id)
					}
				}
			}
			return true, ""
		}
		why := ""
		for sec := 0; sec < 600; sec++ {
			time.Sleep(time.Second)
			var ok bool
			if ok, why = converged(); ok {
				vlib.AddExtra("C03", "TestC03Async", "virtual_seconds_to_converge_total", float64(sec+1))
				c.Stepf("converged after %d virtual seconds (%d packets sent, %d lost)", sec+1, nw.sent, nw.lost)
				return
			}
		}
		c.Fatalf("C03: real schedulers did not converge within 10 virtual minutes after the network healed: %s", why)
	})
}

func s2(c *vlib.Case) string {
	if c.Chance("longVal", 1, 4) {
		return vlib.Draw(c, genVal, "val")
	}
	return c.OneOf("val", "", "1", "2", "x")
}

const asyncSilenceRule = "3-4 real gossip.New instances in the virtual-time bubble; half of the clusters also know a peer whose advertised address cannot be used (every send to it fails); one node crashes (its sockets go silent) after a drawn uptime during which nobody may be suspected; oracle: every survivor marks it unreachable within 45 virtual seconds and never marks itself or another survivor unreachable for good, the crashed node is excluded from live nodes while marked; whether it stays forgotten after expiry is recorded as known finding F2 (re-learned from a survivor's digest) rather than asserted; every case is non-trivial"

func TestC11Async(t *testing.T) {
	vlib.SetRule("C11", "TestC11Async", asyncSilenceRule)
	vlib.RunSync(t, "C11", func(c *vlib.Case) { runAsyncSilence(c, "C11", true) })
}

// TestC12Async claims the first half of the same scenario for C12: with the real
// schedulers, listeners and periodic liveness evaluation around the detector, a
// steadily gossiping peer is never suspected and a silent one always is.
func TestC12Async(t *testing.T) {
	vlib.SetRule("C12", "TestC12Async", "the detector inside the real gossip.New (reports on every received delta, periodic liveness evaluation): "+asyncSilenceRule)
	vlib.RunSync(t, "C12", func(c *vlib.Case) { runAsyncSilence(c, "C12", false) })
}

func runAsyncSilence(c *vlib.Case, prop string, checkForgotten bool) {
	N := c.Int("nodes", 3, 4)
	nw, nodes := startAsync(c, N, 1400, int64(c.Int("netSeed", 1, 1<<30)))
	defer func() {
		for _, n := range nodes {
			_ = n.g.Close()
		}
		time.Sleep(time.Second)
	}()
	c.NonTrivial()
	for _, n := range nodes {
		n.g.UpsertLocal("k", n.id)
	}
	// half of the clusters also know of a peer whose advertised address cannot be
	// used (no port): every attempt to gossip with it fails on the sending side.
	// Nothing else may depend on those attempts succeeding.
	ghost := c.Bool("unusablePeerAddress")
	uptime := time.Duration(c.Int("uptimeSec", 2, 40)) * time.Second
	if ghost {
		for _, n := range nodes {
			n.g.VerifSeed(gossip.VerifDigest{{ID: "ghost", Addr: "ghost-address-without-port"}})
		}
		// the crash falls into the time in which the unusable peer is known and
		// already suspected (it is forgotten a minute after that)
		uptime = time.Duration(c.Int("uptimeSecGhost", 6, 14)) * time.Second
		c.Class("peer-with-unusable-address")
	}
	// while everybody is up, nobody is suspected (the unusable peer aside)
	for el := time.Duration(0); el < uptime; el += time.Second {
		time.Sleep(time.Second)
		for _, o := range nodes {
			for _, m := range o.g.Nodes() {
				if m.ID != "ghost" && m.Unreachable {
					c.Fatalf(prop+": %s considers the live, steadily gossiping node %s unreachable after %v of uptime", o.id, m.ID, el+time.Second)
				}
			}
		}
	}
	victim := nodes[c.Pick("victim", N)]
	nw.mu.Lock()
	victim.pc.down = true
	nw.mu.Unlock()
	c.Stepf("%s crashes", victim.id)
	// measured: 3-10 virtual seconds (20 times the mean interval between packets of
	// the victim); the bound is 45
	flagged := false
	for sec := 0; sec < 45 && !flagged; sec++ {
		time.Sleep(time.Second)
		flagged = true
		for _, s := range nodes {
			if s == victim {
				continue
			}
			found := false
			for _, m := range s.g.Nodes() {
				if m.ID == victim.id {
					found = true
					if !m.Unreachable {
						flagged = false
					}
				}
			}
			if !found {
				// already expired and forgotten
				continue
			}
		}
	}
	if !flagged {
		c.Fatalf(prop+": survivors did not all mark the silent node %s unreachable within 45 virtual seconds (unusable peer address present: %v)", victim.id, ghost)
	}
	// survivors stay reachable to each other
	time.Sleep(5 * time.Second)
	for _, s := range nodes {
		if s == victim {
			continue
		}
		for _, m := range s.g.Nodes() {
			if m.ID == s.id && (m.Unreachable || m.Left) {
				c.Fatalf(prop+": %s marked itself unreachable/left", s.id)
			}
		}
	}
	if !checkForgotten {
		return
	}
	// after the expiry period: is the crashed node forgotten for good?
	time.Sleep(3 * time.Minute)
	relearned := false
	for _, s := range nodes {
		if s == victim {
			continue
		}
		if m, ok := s.g.Node(victim.id); ok && !m.Left {
			relearned = true
		}
	}
	if relearned {
		if !c.Known("F2", "a node that was expired after crashing/closing is re-introduced as live by a peer's digest entry (Left=false) although it sent nothing since") {
			c.Fatalf(prop+" I6: 3 minutes after its expiry period the crashed node %s is still (again) known to a survivor", victim.id)
		}
		c.Class("crashed-node-still-known-3min-after-expiry")
	} else {
		c.Class("crashed-node-forgotten")
	}
}
