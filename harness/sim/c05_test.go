package sim

import (
	"fmt"
	"reflect"
	"runtime"
	"strconv"
	"strings"
	"sync"
	"sync/atomic"
	"testing"

	"github.com/andydunstall/piko/pkg/gossip"
	"github.com/andydunstall/piko/pkg/log"
	"github.com/andydunstall/piko/server/cluster"
	sgossip "github.com/andydunstall/piko/server/gossip"
	"github.com/andydunstall/piko/server/upstream"

	"verif/harness/vlib"
)

// stack is one node's registry + cluster state + syncer + gossip state.
type stack struct {
	cs  *cluster.State
	mgr *upstream.LoadBalancedManager
	g   *gossip.VerifNode
}

func newStack() *stack {
	cs := cluster.NewState(&cluster.Node{ID: "n0", ProxyAddr: "p", AdminAddr: "a"}, log.NewNopLogger())
	st := &stack{cs: cs, mgr: upstream.NewLoadBalancedManager(cs, nil)}
	st.g = gossip.VerifNewNode("n0", "127.0.0.1:7000", 1400, gossipInterval, nil, nil)
	sgossip.VerifNewSyncer(cs).VerifSync(st.g.State)
	return st
}

func (st *stack) gossipCounts(fail func(string, ...any)) map[string]int {
	gl := map[string]int{}
	for _, e := range st.g.State.LocalNode().Entries {
		if strings.HasPrefix(e.Key, "endpoint:") && !e.Deleted {
			cnt, err := strconv.Atoi(e.Value)
			if err != nil {
				fail("C05: gossip entry %+v is not a count", e)
			}
			gl[strings.TrimPrefix(e.Key, "endpoint:")] = cnt
		}
	}
	return gl
}

func (st *stack) check(c *vlib.Case, want map[string]int, when string) {
	reg := st.mgr.Endpoints()
	if !reflect.DeepEqual(reg, want) {
		c.Fatalf("C05 (%s): registry %v, upstreams actually registered %v", when, reg, want)
	}
	loc := st.cs.LocalNode().Endpoints
	if loc == nil {
		loc = map[string]int{}
	}
	if !reflect.DeepEqual(loc, want) {
		c.Fatalf("C05 (%s): cluster state advertises %v, upstreams actually registered %v", when, loc, want)
	}
	if gl := st.gossipCounts(c.Fatalf); !reflect.DeepEqual(gl, want) {
		c.Fatalf("C05 (%s): gossip advertises %v, upstreams actually registered %v", when, gl, want)
	}
	for _, ep := range simEps {
		if (st.cs.LocalEndpointListeners(ep) > 0) != (want[ep] > 0) {
			c.Fatalf("C05 (%s): endpoint %s advertised=%v but registered upstreams=%d", when, ep, st.cs.LocalEndpointListeners(ep) > 0, want[ep])
		}
	}
}

func TestC05Seq(t *testing.T) {
	vlib.SetRule("C05", "TestC05Seq", "sequences of AddConn / RemoveConn on one real node stack (manager + cluster state + syncer + gossip state): every object is added at most once, removed 0-3 times at any later point (proxy removal on ErrGone followed by the handler's deferred removal), never-registered objects are removed occasionally, compaction interleaved; oracle after every step: registry == cluster endpoints == gossip endpoint:<id> counts == model multiset; non-trivial = a removal repeated while a sibling of the same endpoint stays registered")
	vlib.Run(t, "C05", func(c *vlib.Case) {
		st := newStack()
		var ups []*fakeUp
		want := map[string]int{}
		n := c.Int("steps", 1, 40)
		for i := 0; i < n; i++ {
			switch c.Weighted("op", []string{"add", "remove", "removeUnknown", "compact", "selectRemove"}, []int{6, 8, 1, 1, 2}) {
			case "add":
				u := &fakeUp{ep: simEps[c.Pick("ep", len(simEps))], id: len(ups)}
				ups = append(ups, u)
				c.Stepf("add #%d %s", u.id, u.ep)
				st.mgr.AddConn(u)
				want[u.ep]++
			case "remove":
				if len(ups) == 0 {
					continue
				}
				u := ups[c.Pick("u", len(ups))]
				if u.removed >= 3 {
					continue
				}
				c.Stepf("remove #%d %s (removal no. %d)", u.id, u.ep, u.removed+1)
				if u.removed == 0 {
					want[u.ep]--
					if want[u.ep] == 0 {
						delete(want, u.ep)
					}
				} else {
					c.Class("repeated-removal")
					if want[u.ep] > 0 {
						c.NonTrivial()
						c.Class("repeated-removal-with-sibling")
					}
				}
				u.removed++
				st.mgr.RemoveConn(u)
			case "removeUnknown":
				u := &fakeUp{ep: simEps[c.Pick("ep", len(simEps))], id: -1}
				c.Stepf("remove never-registered upstream of %s", u.ep)
				st.mgr.RemoveConn(u)
			case "compact":
				c.Stepf("compact")
				st.g.State.CompactLocal(1)
			case "selectRemove":
				ep := simEps[c.Pick("ep", len(simEps))]
				if u, ok := st.mgr.Select(ep, false); ok {
					fu := u.(*fakeUp)
					c.Stepf("proxy selects #%d of %s, gets ErrGone, removes it", fu.id, ep)
					if fu.removed == 0 {
						want[ep]--
						if want[ep] == 0 {
							delete(want, ep)
						}
					}
					fu.removed++
					st.mgr.RemoveConn(u)
				}
			}
			st.check(c, want, fmt.Sprintf("after step %d", i+1))
		}
	})
}

func TestC05Concurrent(t *testing.T) {
	vlib.SetRule("C05", "TestC05Concurrent", "2-8 goroutines each running a generated list of add / remove-own (repeatable) / select-and-remove (the proxy's ErrGone path) operations with generated yields on one real node stack; oracle at quiescence: registry == cluster endpoints == gossip counts == the set of objects added and never removed; non-trivial = two goroutines work on the same endpoint and at least one removal is repeated or done through select")
	vlib.Run(t, "C05", func(c *vlib.Case) {
		st := newStack()
		type op struct {
			kind  string
			ep    string
			own   int
			yield int
		}
		G := c.Int("goroutines", 2, 8)
		progs := make([][]op, G)
		epG := map[string]map[int]bool{}
		special := false
		for g := 0; g < G; g++ {
			adds := 0
			for i, n := 0, c.Int("ops", 1, 10); i < n; i++ {
				o := op{kind: c.Weighted("op", []string{"add", "remove", "selectRemove"}, []int{5, 5, 2}), ep: simEps[c.Pick("ep", 2)], yield: c.Int("yield", 0, 3)}
				switch o.kind {
				case "add":
					adds++
				case "remove":
					if adds == 0 {
						o.kind = "add"
						adds++
					} else {
						o.own = c.Pick("own", adds)
					}
				case "selectRemove":
					special = true
				}
				if epG[o.ep] == nil {
					epG[o.ep] = map[int]bool{}
				}
				epG[o.ep][g] = true
				progs[g] = append(progs[g], o)
			}
			c.Stepf("g%d: %+v", g, progs[g])
		}
		shared := false
		for _, gs := range epG {
			if len(gs) >= 2 {
				shared = true
			}
		}
		type obj struct {
			u       *fakeUp
			removed atomic.Bool
		}
		var mu sync.Mutex
		objs := map[*fakeUp]*obj{}
		var wg sync.WaitGroup
		var panicked atomic.Value
		for g := 0; g < G; g++ {
			wg.Add(1)
			go func(g int) {
				defer wg.Done()
				defer func() {
					if r := recover(); r != nil {
						panicked.Store(fmt.Sprint(r))
					}
				}()
				var own []*obj
				removedOnce := map[*obj]bool{}
				for _, o := range progs[g] {
					for y := 0; y < o.yield; y++ {
						runtime.Gosched()
					}
					switch o.kind {
					case "add":
						ob := &obj{u: &fakeUp{ep: o.ep, id: g*100 + len(own)}}
						own = append(own, ob)
						mu.Lock()
						objs[ob.u] = ob
						mu.Unlock()
						st.mgr.AddConn(ob.u)
					case "remove":
						ob := own[o.own]
						if removedOnce[ob] {
							special = true
						}
						removedOnce[ob] = true
						ob.removed.Store(true)
						st.mgr.RemoveConn(ob.u)
					case "selectRemove":
						if u, ok := st.mgr.Select(o.ep, false); ok && u != nil {
							mu.Lock()
							ob := objs[u.(*fakeUp)]
							mu.Unlock()
							ob.removed.Store(true)
							st.mgr.RemoveConn(u)
						}
					}
				}
			}(g)
		}
		wg.Wait()
		if p := panicked.Load(); p != nil {
			c.Fatalf("C05: panic under concurrent registration: %v", p)
		}
		if shared && special {
			c.NonTrivial()
		}
		want := map[string]int{}
		for _, ob := range objs {
			if !ob.removed.Load() {
				want[ob.u.ep]++
			}
		}
		st.check(c, want, "at quiescence")
	})
}
