// Package sim is the SIM engine: a cluster of real piko control planes (gossip
// state + packet/stream handlers + failure detector + routing syncer + cluster
// state + upstream manager per node) wired to an in-memory datagram network
// whose every packet fate is a generated step. All calls are made synchronously
// from the test goroutine inside a testing/synctest bubble (virtual clock).
package sim

import (
	"fmt"
	"net"
	"reflect"
	"sort"
	"strconv"
	"strings"
	"time"

	"github.com/andydunstall/piko/pkg/gossip"
	"github.com/andydunstall/piko/pkg/log"
	"github.com/andydunstall/piko/server/cluster"
	sgossip "github.com/andydunstall/piko/server/gossip"
	"github.com/andydunstall/piko/server/upstream"

	"pgregory.net/rapid"

	"verif/harness/vlib"
)

var genVal = rapid.StringN(0, 24, 72)

// Profile selects the oracles and the step mix of a run.
type Profile struct {
	Prop     string
	Oracles  map[string]bool // C02 C04 C05 C11 C13 C14
	Weights  map[string]int  // overrides of the base step weights
	MaxSteps int
	MaxNodes int
	// NoSweepFraction: in this share (num/3) of cases no node is ever forgotten.
	AllowNoSweep bool
	Lifecycle    bool // bias towards crash / silence / expiry steps
	TinyPackets  bool // allow packet sizes down to the minimum viable
	LongVals     int  // chance (out of 10) that an upsert writes a long value (default 2)
	// WriteAfterLeave: a node that has left but is still running keeps writing and
	// deleting keys (a server's upstream handlers withdraw their endpoints on their
	// own goroutines, after the node has announced its departure)
	WriteAfterLeave bool
}

var baseWeights = map[string]int{
	"upsert": 8, "delete": 4, "compact": 3, "gossip": 10, "deliver": 14, "drop": 3, "dup": 2,
	"deliverAll": 2, "advance": 2, "liveness": 2, "sweep": 2, "leave": 1, "leaveVia": 1, "close": 1,
	"crash": 1, "join": 2, "forge": 1, "addConn": 4, "removeConn": 4, "partition": 1, "heal": 1, "toExpiry": 2, "silence": 2,
}

var stepOrder = []string{"upsert", "delete", "compact", "gossip", "deliver", "drop", "dup", "deliverAll", "advance", "liveness", "sweep", "leave", "leaveVia", "close", "crash", "join", "addConn", "removeConn", "partition", "heal", "toExpiry", "silence", "forge"}

var simKeys = []string{"a", "b", "c", "d", "kéy", "", "k\xff\xfe"} // the last is not valid UTF-8 (keys are arbitrary strings)
var simEps = []string{"e0", "e1", "E1"}                            // the last is a case variant of the second

const gossipInterval = 100 * time.Millisecond

type pkt struct {
	from, to string // addrs
	b        []byte
	tag      map[string]int // forget epochs of the emitter of the digest this packet is / answers
	dupOf    bool
}

type fakeUp struct {
	ep      string
	id      int
	removed int
}

func (f *fakeUp) EndpointID() string      { return f.ep }
func (f *fakeUp) Dial() (net.Conn, error) { return nil, fmt.Errorf("fake upstream") }
func (f *fakeUp) Forward() bool           { return false }

type foldNode struct {
	keys        map[string]string
	left, unrch bool
}

// Node is one simulated server node with the harness's ground truth about it.
type Node struct {
	idx       int
	id, addr  string
	maxPacket int
	n         *gossip.VerifNode
	w         *recWatcher
	cs        *cluster.State
	mgr       *upstream.LoadBalancedManager
	syncer    *sgossip.VerifSyncer

	hist      map[uint64]gossip.Entry // every entry this node ever published, by version
	lastLocal *gossip.NodeState
	crashed   bool // gone: takes no steps, receives nothing
	left      bool
	sentSince map[string]bool

	lastVer   map[string]uint64 // subject -> last version reported
	forget    map[string]int    // subject -> number of times forgotten
	prev      map[string]gossip.NodeMetadata
	everKnown map[string]bool
	expired   map[string]bool      // subjects this node has expired at least once
	lastHeard map[string]time.Time // subject -> last delta packet received from it
	learnedAt map[string]time.Time // subject -> when this node (last) learned of it
	zombie    map[string]bool      // subjects re-learned through the known finding F2
	ups       []*fakeUp
}

type stepCtx struct {
	kind   string
	node   *Node
	tStart time.Time
	digest gossip.VerifDigest // digest applied on ctx.node in this action, if any
	sender *Node
}

// Sim is one simulated cluster.
type Sim struct {
	c       *vlib.Case
	p       *Profile
	nodes   []*Node
	byAddr  map[string]*Node
	q       []pkt
	cause   *pkt
	causeDg gossip.VerifDigest
	ctx     stepCtx
	blocked map[[2]int]bool
	noSweep bool
	fixed   bool
	closure bool
	round   int

	sawTrunc, sawRelay, sawDup, sawReorder, sawCompactAfterDelete bool
	sawSkewExpiry, sawRecover, sawDeadAndLiveHolder               bool
	f3Excluded                                                    int
}

func (s *Sim) on(o string) bool { return s.p.Oracles[o] }

func (s *Sim) byID(id string) *Node {
	for _, n := range s.nodes {
		if n.id == id {
			return n
		}
	}
	return nil
}

// ---------------------------------------------------------------------------
// fake packet conn

type simConn struct {
	s    *Sim
	addr string
}

func (c *simConn) ReadFrom(p []byte) (int, net.Addr, error) { select {} }
func (c *simConn) Close() error                             { return nil }
func (c *simConn) LocalAddr() net.Addr                      { return nil }
func (c *simConn) SetDeadline(time.Time) error              { return nil }
func (c *simConn) SetReadDeadline(time.Time) error          { return nil }
func (c *simConn) SetWriteDeadline(time.Time) error         { return nil }

func (c *simConn) WriteTo(p []byte, a net.Addr) (int, error) {
	s := c.s
	b := append([]byte(nil), p...)
	from := s.byAddr[c.addr]
	if len(b) < 2 {
		s.c.Fatalf("C13: node %s emitted a %d-byte packet", from.id, len(b))
	}
	isDigest := b[0] == 1
	if isDigest {
		b = s.normaliseDigest(from, b)
	} else if s.on("C13") {
		s.checkEmittedDelta(from, b)
	}
	if s.on("C13") && len(b) > from.maxPacket {
		s.c.Fatalf("C13: %s emitted a packet of %d bytes, limit %d", from.id, len(b), from.maxPacket)
	}
	if !isDigest {
		s.noteTruncation(from, b)
	}
	np := pkt{from: c.addr, to: a.String(), b: b}
	if isDigest || s.cause == nil {
		np.tag = map[string]int{}
		for k, v := range from.forget {
			np.tag[k] = v
		}
	} else {
		np.tag = s.cause.tag
	}
	s.q = append(s.q, np)
	return len(p), nil
}

// normaliseDigest replaces the (map-ordered, globally shuffled) digest by the
// same digest in an order chosen by the generator (any order is one the real
// shuffle can produce), re-encoded by the real encoder at the same size limit.
func (s *Sim) normaliseDigest(from *Node, b []byte) []byte {
	id, addr, req, dec, err := gossip.VerifDecodeDigest(b)
	if err != nil {
		s.c.Fatalf("C13: digest emitted by %s does not decode: %v", from.id, err)
	}
	full := from.n.State.Digest()
	sort.Slice(full, func(i, j int) bool { return full[i].ID < full[j].ID })
	if s.on("C13") {
		if len(b) > from.maxPacket {
			s.c.Fatalf("C13: %s emitted a digest of %d bytes, limit %d", from.id, len(b), from.maxPacket)
		}
		s.checkEmittedDigest(from, id, addr, req, dec, full, b)
	}
	var perm []int
	if s.fixed {
		perm = make([]int, len(full))
		for i := range perm {
			perm[i] = i
		}
	} else if s.closure {
		// fair rotation while closing: every entry is advertised regularly
		perm = make([]int, len(full))
		for i := range perm {
			perm[i] = (i + s.round + from.idx) % len(full)
		}
	} else {
		perm = s.c.Perm("digestOrder", len(full))
	}
	out := make(gossip.VerifDigest, len(full))
	for i, j := range perm {
		out[i] = full[j]
	}
	nb, err := gossip.VerifEncodeDigest(id, addr, req, out, from.maxPacket)
	if err != nil {
		s.c.Harnessf("re-encode digest: %v", err)
	}
	return nb
}

func (s *Sim) checkEmittedDigest(from *Node, id, addr string, req bool, dec, full gossip.VerifDigest, b []byte) {
	if id != from.id || addr != from.addr {
		s.c.Fatalf("C13: digest header says %s/%s, sender is %s/%s", id, addr, from.id, from.addr)
	}
	// decoded entries are distinct members of the sender's digest
	fm := map[string]gossip.VerifDigestEntry{}
	for _, e := range full {
		fm[e.ID] = e
	}
	seen := map[string]bool{}
	for _, e := range dec {
		if fe, ok := fm[e.ID]; !ok || fe != e || seen[e.ID] {
			s.c.Fatalf("C13: digest of %s carries %+v which is not (once) in its state digest %+v", from.id, e, full)
		}
		seen[e.ID] = true
	}
	// maximal: it holds every entry, or the next entry of the emitted order would not fit
	if len(dec) < len(full) {
		hdr, items := gossip.VerifDigestItemSizes(id, addr, req, dec)
		used := hdr
		for _, it := range items {
			used += it
		}
		if used != len(b) {
			s.c.Fatalf("C13: digest of %s is %d bytes but its whole entries make %d", from.id, len(b), used)
		}
		// smallest omitted entry
		smallest := -1
		for _, e := range full {
			if !seen[e.ID] {
				_, it := gossip.VerifDigestItemSizes(id, addr, req, gossip.VerifDigest{e})
				if smallest < 0 || it[0] < smallest {
					smallest = it[0]
				}
			}
		}
		_ = smallest // which entry came next in the (unknown) shuffled order is not observable; covered exactly by the PURE sweep
	}
}

func countItems(d gossip.VerifDelta) int {
	n := 0
	for _, de := range d {
		n += 1 + len(de.Entries)
	}
	return n
}

func (s *Sim) intendedDelta(from *Node) (gossip.VerifDelta, bool) {
	if s.causeDg == nil {
		return nil, false
	}
	return from.n.State.Delta(s.causeDg, false), true
}

func (s *Sim) noteTruncation(from *Node, b []byte) {
	intended, ok := s.intendedDelta(from)
	if !ok {
		return
	}
	_, dec, err := gossip.VerifDecodeDelta(b)
	if err != nil {
		return
	}
	if countItems(dec) < countItems(intended) {
		s.sawTrunc = true
		s.c.Class("truncated-delta")
	}
}

// checkEmittedDelta: C13 for deltas emitted inside histories.
func (s *Sim) checkEmittedDelta(from *Node, b []byte) {
	if len(b) > from.maxPacket {
		s.c.Fatalf("C13: %s emitted a delta of %d bytes, limit %d", from.id, len(b), from.maxPacket)
	}
	hid, dec, err := gossip.VerifDecodeDelta(b)
	if err != nil {
		s.c.Fatalf("C13: delta emitted by %s does not decode: %v", from.id, err)
	}
	if hid != from.id {
		s.c.Fatalf("C13: delta header names %s, sender is %s", hid, from.id)
	}
	intended, ok := s.intendedDelta(from)
	if !ok {
		return
	}
	hdr, items := gossip.VerifDeltaItemSizes(from.id, from.addr, intended)
	// expected length: the longest whole-item prefix that fits
	want := hdr
	nItems := 0
	for _, it := range items {
		if want+it > from.maxPacket {
			break
		}
		want += it
		nItems++
	}
	if len(b) != want {
		s.c.Fatalf("C13: delta of %s is %d bytes; the longest whole-entry prefix of the intended delta within %d bytes is %d bytes (%d of %d items)", from.id, len(b), from.maxPacket, want, nItems, len(items))
	}
	// decoded value is the item-prefix of the intended value
	k := 0
	for di, de := range dec {
		if di >= len(intended) || intended[di].ID != de.ID || intended[di].Addr != de.Addr {
			s.c.Fatalf("C13: delta of %s: node #%d is %s, intended %+v", from.id, di, de.ID, intended)
		}
		k++
		var last uint64
		for ei, e := range de.Entries {
			if ei >= len(intended[di].Entries) || intended[di].Entries[ei] != e {
				s.c.Fatalf("C13: delta of %s: entry %d of node %s is %+v, not the intended one", from.id, ei, de.ID, e)
			}
			if e.Version <= last {
				s.c.Fatalf("C13: delta of %s: entries of node %s not in increasing version order", from.id, de.ID)
			}
			last = e.Version
			k++
		}
		if di < len(dec)-1 && len(de.Entries) != len(intended[di].Entries) {
			s.c.Fatalf("C13: delta of %s: node %s is cut short but further nodes follow", from.id, de.ID)
		}
	}
	if k != nItems {
		s.c.Fatalf("C13: delta of %s decodes to %d items, the fitting prefix has %d", from.id, k, nItems)
	}
}

// ---------------------------------------------------------------------------
// recording watcher (C14 fold) chained to the real syncer

type recWatcher struct {
	s    *Sim
	self string
	f    map[string]*foldNode
	next gossip.Watcher
}

func (w *recWatcher) fail(f string, a ...any) {
	if w.s.on("C14") {
		w.s.c.Fatalf("C14@"+w.self+": "+f, a...)
	}
}
func (w *recWatcher) OnJoin(id string) {
	if _, ok := w.f[id]; ok {
		w.fail("node %s announced twice", id)
	}
	w.f[id] = &foldNode{keys: map[string]string{}}
	w.next.OnJoin(id)
}
func (w *recWatcher) need(id, what string) *foldNode {
	n, ok := w.f[id]
	if !ok {
		w.fail("%s notification for node %s that was never announced", what, id)
		n = &foldNode{keys: map[string]string{}}
		w.f[id] = n
	}
	return n
}
func (w *recWatcher) OnLeave(id string) { w.need(id, "leave").left = true; w.next.OnLeave(id) }
func (w *recWatcher) OnReachable(id string) {
	w.need(id, "reachable").unrch = false
	w.next.OnReachable(id)
}
func (w *recWatcher) OnUnreachable(id string) {
	w.need(id, "unreachable").unrch = true
	w.next.OnUnreachable(id)
}
func (w *recWatcher) OnUpsertKey(id, k, v string) {
	w.need(id, "upsert").keys[k] = v
	w.next.OnUpsertKey(id, k, v)
}
func (w *recWatcher) OnDeleteKey(id, k string) {
	delete(w.need(id, "delete").keys, k)
	w.next.OnDeleteKey(id, k)
}
func (w *recWatcher) OnExpired(id string) {
	w.need(id, "expired")
	delete(w.f, id)
	w.next.OnExpired(id)
}

// ---------------------------------------------------------------------------
// construction

func minViablePacket(id, addr string) int {
	worst := gossip.Entry{Key: "endpoint:e2", Value: strings.Repeat("€", 24), Version: 1 << 40, Internal: true, Deleted: true}
	d := gossip.VerifDelta{{ID: id, Addr: addr, Entries: []gossip.Entry{worst}}}
	hdr, items := gossip.VerifDeltaItemSizes(id, addr, d)
	n := hdr
	for _, it := range items {
		n += it
	}
	h2, it2 := gossip.VerifDigestItemSizes(id, addr, true, gossip.VerifDigest{{ID: id, Addr: addr, Version: 1 << 40, Left: true}})
	if h2+it2[0] > n {
		n = h2 + it2[0]
	}
	return n
}

// New builds the cluster: N nodes, every node joined to node 0.
func New(c *vlib.Case, p *Profile) *Sim {
	maxN := p.MaxNodes
	if maxN == 0 {
		maxN = 4
	}
	N := c.Int("N", 2, maxN)
	s := &Sim{c: c, p: p, byAddr: map[string]*Node{}, blocked: map[[2]int]bool{}}
	if p.AllowNoSweep {
		s.noSweep = c.Chance("noSweep", 1, 3)
	}
	s.build(N, nil)
	return s
}

// NewN builds a cluster of exactly n nodes (packet sizes drawn).
func NewN(c *vlib.Case, p *Profile, n int) *Sim {
	s := &Sim{c: c, p: p, byAddr: map[string]*Node{}, blocked: map[[2]int]bool{}}
	s.build(n, nil)
	return s
}

// NewFixed builds a cluster for a hand-written scenario: no draws are made
// (digests keep the sorted order, deliveries advance the clock by 1us).
func NewFixed(c *vlib.Case, p *Profile, packetSizes []int) *Sim {
	s := &Sim{c: c, p: p, byAddr: map[string]*Node{}, blocked: map[[2]int]bool{}, fixed: true}
	s.build(len(packetSizes), packetSizes)
	return s
}

func (s *Sim) build(N int, fixedSizes []int) {
	c, p := s.c, s.p
	c.Header["nodes"] = N
	c.Header["no_sweep"] = s.noSweep
	var sizes []int
	for i := 0; i < N; i++ {
		mv := minViablePacket(fmt.Sprintf("n%d", i), fmt.Sprintf("127.0.0.1:%d", 7000+i))
		choices := []int{1400, 700, 400, 300, mv + 40, mv + 7, mv + 1, mv}
		if !p.TinyPackets {
			choices = choices[:5]
		}
		var maxPacket int
		if fixedSizes != nil {
			maxPacket = fixedSizes[i]
		} else {
			maxPacket = choices[c.Pick("maxPacket", len(choices))]
		}
		sizes = append(sizes, maxPacket)
		n := s.newNode(i, maxPacket)
		s.byAddr[n.addr] = n
		s.nodes = append(s.nodes, n)
		s.snapshotLocal(n)
	}
	c.Header["max_packet"] = sizes
	for _, n := range s.nodes[1:] {
		s.doJoin(n, s.nodes[0])
	}
}

// newNode wires one node: real gossip state, handlers, failure detector, syncer,
// cluster state and upstream manager.
func (s *Sim) newNode(i int, maxPacket int) *Node {
	addr := fmt.Sprintf("127.0.0.1:%d", 7000+i)
	n := &Node{idx: i, id: fmt.Sprintf("n%d", i), addr: addr, maxPacket: maxPacket,
		hist: map[uint64]gossip.Entry{}, lastVer: map[string]uint64{}, forget: map[string]int{},
		prev: map[string]gossip.NodeMetadata{}, everKnown: map[string]bool{}, expired: map[string]bool{},
		lastHeard: map[string]time.Time{}, learnedAt: map[string]time.Time{}, zombie: map[string]bool{}}
	n.cs = cluster.NewState(&cluster.Node{ID: n.id, ProxyAddr: "proxy-" + n.id, AdminAddr: "admin-" + n.id}, log.NewNopLogger())
	n.mgr = upstream.NewLoadBalancedManager(n.cs, nil)
	n.syncer = sgossip.VerifNewSyncer(n.cs)
	n.w = &recWatcher{s: s, self: n.id, f: map[string]*foldNode{}, next: n.syncer}
	n.n = gossip.VerifNewNode(n.id, addr, n.maxPacket, gossipInterval, &simConn{s, addr}, n.w)
	n.syncer.VerifSync(n.n.State)
	return n
}

// Restart replaces a node that is gone (left or crashed) and that no other running
// node remembers by a new incarnation with the same id and address and an empty
// state: "the node really returns". Everything in flight is lost.
func (s *Sim) Restart(x *Node) *Node {
	for _, o := range s.nodes {
		if o != x && !o.crashed {
			if _, known := o.n.State.Node(x.id); known {
				s.c.Harnessf("restart of %s while %s still remembers it", x.id, o.id)
			}
		}
	}
	s.q = nil
	n := s.newNode(x.idx, x.maxPacket)
	s.nodes[x.idx] = n
	s.byAddr[n.addr] = n
	for _, o := range s.nodes {
		if o == n {
			continue
		}
		delete(o.lastVer, n.id)
		delete(o.prev, n.id)
		delete(o.everKnown, n.id)
		delete(o.expired, n.id)
		delete(o.lastHeard, n.id)
		delete(o.learnedAt, n.id)
		delete(o.zombie, n.id)
	}
	s.snapshotLocal(n)
	s.c.Stepf("%s: returns as a new incarnation (empty state)", n.id)
	s.c.Class("node-returns")
	return n
}

func (s *Sim) snapshotLocal(n *Node) {
	ls := n.n.State.LocalNode()
	for _, e := range ls.Entries {
		if old, ok := n.hist[e.Version]; ok && old != e {
			s.c.Fatalf("%s: version %d of %s used for two different entries: %+v and %+v", s.p.Prop, e.Version, n.id, old, e)
		}
		n.hist[e.Version] = e
	}
	n.lastLocal = ls
}

func (s *Sim) begin(kind string, node *Node) {
	s.ctx = stepCtx{kind: kind, node: node, tStart: time.Now()}
}

func (s *Sim) isBlocked(a, b *Node) bool {
	i, j := a.idx, b.idx
	if i > j {
		i, j = j, i
	}
	return s.blocked[[2]int{i, j}]
}

// ---------------------------------------------------------------------------
// actions

func (s *Sim) doJoin(a, b *Node) {
	s.begin("join", b)
	s.ctx.digest = a.n.State.Digest()
	s.ctx.sender = a
	s.c.Stepf("join %s -> %s", a.id, b.id)
	if err := a.n.JoinVia(b.n); err != nil {
		s.c.Fatalf("%s: join %s->%s over a working stream failed: %v", s.p.Prop, a.id, b.id, err)
	}
	s.afterAction()
}

func (s *Sim) deliverIdx(i int) {
	p := s.q[i]
	s.q = append(s.q[:i], s.q[i+1:]...)
	s.deliverPkt(p)
}

func (s *Sim) deliverPkt(p pkt) {
	dst, ok := s.byAddr[p.to]
	src := s.byAddr[p.from]
	if !ok || dst.crashed || s.isBlocked(src, dst) {
		s.c.Stepf("  packet %s->%s lost (receiver gone or partitioned)", src.id, p.to)
		return
	}
	isDelta := p.b[0] == 2
	var dec gossip.VerifDelta
	if isDelta {
		_, d, err := gossip.VerifDecodeDelta(p.b)
		if err != nil {
			s.c.Fatalf("C13: in-flight delta does not decode: %v", err)
		}
		dec = d
		for _, de := range d {
			if p.tag[de.ID] != dst.forget[de.ID] {
				// Known finding F3: this delta answers a digest that dst sent before it
				// forgot de.ID. Excluded by construction: the packet is lost instead.
				s.f3Excluded++
				s.c.Class("F3-stale-delta-dropped")
				s.c.Stepf("  delta %s->%s about %s is stale w.r.t. an expiry on %s: dropped (F3 exclusion)", src.id, dst.id, de.ID, dst.id)
				return
			}
		}
	}
	s.begin("deliver", dst)
	s.ctx.sender = src
	if !isDelta {
		_, _, _, dg, err := gossip.VerifDecodeDigest(p.b)
		if err != nil {
			s.c.Fatalf("C13: in-flight digest does not decode: %v", err)
		}
		s.ctx.digest = dg
		s.causeDg = dg
	}
	// wall clocks strictly increase between arrivals
	if s.fixed {
		time.Sleep(time.Microsecond)
	} else {
		time.Sleep(time.Duration(s.c.Int("us", 1, 1000)) * time.Microsecond)
	}
	s.ctx.tStart = time.Now()
	s.cause = &p
	// relay detection: a delta from a third party advances dst's view of an owner
	before := map[string]uint64{}
	if isDelta {
		for _, de := range dec {
			if v, ok := dst.n.State.Node(de.ID); ok {
				before[de.ID] = v.Version
			} else {
				before[de.ID] = 0
			}
		}
	}
	err := dst.n.HandlePacket(p.b)
	s.cause, s.causeDg = nil, nil
	if err != nil && (s.on("C13") || s.on("C03")) {
		s.c.Fatalf("%s: %s rejected a packet emitted by %s: %v", s.p.Prop, dst.id, src.id, err)
	}
	if isDelta {
		dst.lastHeard[src.id] = time.Now()
		for _, de := range dec {
			if v, ok := dst.n.State.Node(de.ID); ok && v.Version > before[de.ID] && de.ID != src.id {
				s.sawRelay = true
				s.c.Class("relay-learning")
			}
		}
		s.c.Stepf("deliver delta %s->%s (%d bytes, %d items)", src.id, dst.id, len(p.b), countItems(dec))
	} else {
		s.c.Stepf("deliver digest %s->%s (%d bytes, %d entries)", src.id, dst.id, len(p.b), len(s.ctx.digest))
	}
	if p.dupOf {
		s.sawDup = true
	}
	s.afterAction()
}

func (s *Sim) live() []*Node {
	var l []*Node
	for _, n := range s.nodes {
		if !n.crashed {
			l = append(l, n)
		}
	}
	return l
}

func (s *Sim) pickFrom(label string, ns []*Node) *Node { return ns[s.c.Pick(label, len(ns))] }

func filter(ns []*Node, f func(*Node) bool) []*Node {
	var out []*Node
	for _, n := range ns {
		if f(n) {
			out = append(out, n)
		}
	}
	return out
}

// keyWriters: who may upsert/delete plain keys in this step.
func (s *Sim) keyWriters(live, writers []*Node) []*Node {
	if !s.p.WriteAfterLeave {
		return writers
	}
	for _, n := range live {
		if n.left {
			s.c.Class("writes-after-leave-possible")
			break
		}
	}
	return live
}

func (s *Sim) drawKey() string { return simKeys[s.c.Pick("key", len(simKeys))] }
func (s *Sim) drawVal() string {
	num := s.p.LongVals
	if num == 0 {
		num = 2
	}
	if s.c.Chance("longVal", num, 10) {
		return vlib.Draw(s.c, genVal, "val")
	}
	return s.c.OneOf("val", "", "1", "2", "x", "värde")
}

// Step draws and applies one step of the history.
func (s *Sim) Step() {
	c := s.c
	live := s.live()
	writers := filter(live, func(n *Node) bool { return !n.left })
	enabled := map[string]bool{}
	if len(live) > 0 {
		enabled["compact"] = true
	}
	if len(writers) > 0 {
		for _, k := range []string{"upsert", "delete", "addConn", "leave"} {
			enabled[k] = true
		}
		if len(filter(writers, func(n *Node) bool { return len(n.ups) > 0 })) > 0 {
			enabled["removeConn"] = true
		}
	}
	if s.p.WriteAfterLeave && len(live) > 0 {
		enabled["upsert"], enabled["delete"] = true, true
	}
	if len(live) > 0 {
		for _, k := range []string{"liveness", "advance", "silence"} {
			enabled[k] = true
		}
		if !s.noSweep {
			enabled["sweep"] = true
			enabled["toExpiry"] = true
		}
		enabled["crash"] = true
	}
	gossipers := filter(live, func(n *Node) bool { return !n.left })
	if len(gossipers) > 0 && len(s.nodes) > 1 {
		enabled["gossip"] = true
	}
	if len(live) >= 2 {
		enabled["forge"] = true
		enabled["join"] = true
		enabled["partition"] = true
	}
	if len(s.blocked) > 0 {
		enabled["heal"] = true
	}
	if len(filter(live, func(n *Node) bool { return n.left })) > 0 {
		enabled["close"] = true
		if len(live) >= 2 {
			enabled["leaveVia"] = true
		}
	}
	if len(s.q) > 0 {
		for _, k := range []string{"deliver", "drop", "dup", "deliverAll"} {
			enabled[k] = true
		}
	}
	var names []string
	var weights []int
	for _, k := range stepOrder {
		if !enabled[k] {
			continue
		}
		w := baseWeights[k]
		if ov, ok := s.p.Weights[k]; ok {
			w = ov
		}
		if s.p.Lifecycle && len(live) < len(s.nodes) {
			switch k {
			case "silence", "toExpiry", "gossip", "deliver":
				w *= 3
			}
		}
		if w > 0 {
			names = append(names, k)
			weights = append(weights, w)
		}
	}
	if len(names) == 0 {
		return
	}
	kind := c.Weighted("kind", names, weights)
	s.begin(kind, nil)
	switch kind {
	case "upsert":
		n := s.pickFrom("node", s.keyWriters(live, writers))
		k, v := s.drawKey(), s.drawVal()
		c.Stepf("%s: upsert(%q,%q)", n.id, k, v)
		n.n.State.UpsertLocal(k, v)
		s.snapshotLocal(n)
	case "delete":
		n := s.pickFrom("node", s.keyWriters(live, writers))
		k := s.drawKey()
		c.Stepf("%s: delete(%q)", n.id, k)
		n.n.State.DeleteLocal(k)
		s.snapshotLocal(n)
	case "compact":
		n := s.pickFrom("node", live)
		th := c.Int("threshold", 1, 3)
		tombs := 0
		for _, e := range n.lastLocal.Entries {
			if e.Deleted {
				tombs++
			}
		}
		c.Stepf("%s: compact(%d) with %d tombstones", n.id, th, tombs)
		n.n.State.CompactLocal(th)
		s.snapshotLocal(n)
		if tombs >= th {
			s.sawCompactAfterDelete = true
			c.Class("compaction-after-delete")
		}
	case "leave":
		if !c.Chance("leaveGate", 1, 3) {
			break
		}
		n := s.pickFrom("node", writers)
		c.Stepf("%s: leave", n.id)
		n.n.State.LeaveLocal()
		n.left = true
		s.snapshotLocal(n)
		c.Class("leave")
	case "leaveVia":
		leavers := filter(live, func(n *Node) bool { return n.left })
		a := s.pickFrom("from", leavers)
		others := filter(live, func(n *Node) bool { return n != a && !s.isBlocked(a, n) })
		if len(others) == 0 {
			break
		}
		b := s.pickFrom("to", others)
		s.begin("leaveVia", b)
		s.ctx.sender = a
		c.Stepf("%s: leave notification to %s", a.id, b.id)
		if err := a.n.LeaveVia(b.n); err != nil {
			c.Fatalf("%s: leave stream %s->%s failed: %v", s.p.Prop, a.id, b.id, err)
		}
		// b has acknowledged the notification: it has learned of the leave
		if nd, ok := b.n.State.Node(a.id); ok && !nd.Left {
			c.Fatalf("%s: %s acknowledged %s's leave notification but does not see it as left (version %d)", s.p.Prop, b.id, a.id, nd.Version)
		}
	case "close":
		leavers := filter(live, func(n *Node) bool { return n.left })
		n := s.pickFrom("node", leavers)
		c.Stepf("%s: closed after leaving", n.id)
		n.crashed = true
	case "crash":
		if !c.Chance("crashGate", 1, 4) {
			break
		}
		n := s.pickFrom("node", live)
		c.Stepf("%s: crash", n.id)
		n.crashed = true
		c.Class("crash")
	case "join":
		joiners := filter(live, func(n *Node) bool { return !n.left })
		if len(joiners) == 0 {
			break
		}
		a := s.pickFrom("from", joiners)
		// a node joins while starting: only nodes that have never forgotten anyone re-join
		if len(a.expired) > 0 {
			break
		}
		others := filter(live, func(n *Node) bool { return n != a && !s.isBlocked(a, n) })
		if len(others) == 0 {
			break
		}
		b := s.pickFrom("to", others)
		s.doJoin(a, b)
		s.checkAll()
		return
	case "gossip":
		a := s.pickFrom("from", gossipers)
		var others []*Node
		for _, n := range s.nodes {
			if n != a {
				others = append(others, n)
			}
		}
		b := s.pickFrom("to", others)
		// a node only gossips with peers it knows
		if _, known := a.n.State.Node(b.id); !known {
			break
		}
		c.Stepf("%s: gossip round with %s", a.id, b.id)
		if err := a.n.GossipTo(gossip.NodeMetadata{ID: b.id, Addr: b.addr}); err != nil {
			c.Fatalf("%s: gossip %s->%s failed: %v", s.p.Prop, a.id, b.id, err)
		}
	case "deliver":
		i := c.Pick("i", len(s.q))
		if i > 0 {
			s.sawReorder = true
		}
		s.deliverIdx(i)
		s.checkAll()
		return
	case "drop":
		i := c.Pick("i", len(s.q))
		c.Stepf("drop packet %d (%s->%s)", i, s.byAddr[s.q[i].from].id, s.q[i].to)
		s.q = append(s.q[:i], s.q[i+1:]...)
		c.Class("loss")
	case "dup":
		i := c.Pick("i", len(s.q))
		d := s.q[i]
		d.dupOf = true
		c.Stepf("duplicate packet %d", i)
		s.q = append(s.q, d)
	case "deliverAll":
		c.Stepf("deliver all %d packets in flight", len(s.q))
		for guard := 0; len(s.q) > 0 && guard < 200; guard++ {
			s.deliverIdx(0)
			s.checkAll()
		}
		return
	case "partition":
		a := s.pickFrom("a", live)
		others := filter(live, func(n *Node) bool { return n != a })
		b := s.pickFrom("b", others)
		i, j := a.idx, b.idx
		if i > j {
			i, j = j, i
		}
		s.blocked[[2]int{i, j}] = true
		c.Stepf("partition %s | %s", a.id, b.id)
		c.Class("partition")
	case "heal":
		s.blocked = map[[2]int]bool{}
		c.Stepf("heal all partitions")
	case "advance":
		d := c.Dur("d", 50*time.Millisecond, 3*time.Second, 30*time.Second, 61*time.Second, 2*time.Minute)
		c.Stepf("advance %v", d)
		time.Sleep(d)
	case "liveness":
		n := s.pickFrom("node", live)
		s.doLiveness(n)
	case "sweep":
		n := s.pickFrom("node", live)
		s.doSweep(n)
	case "silence":
		n := s.pickFrom("node", live)
		d := c.Dur("d", 3900*time.Millisecond, 4100*time.Millisecond, 10*time.Second)
		c.Stepf("silence %v", d)
		time.Sleep(d)
		s.doLiveness(n)
	case "toExpiry":
		n := s.pickFrom("node", live)
		var exps []time.Time
		for _, m := range n.n.State.Nodes() {
			if !m.Expiry.IsZero() && m.Expiry.After(time.Now()) {
				exps = append(exps, m.Expiry)
			}
		}
		if len(exps) == 0 {
			break
		}
		sort.Slice(exps, func(i, j int) bool { return exps[i].Before(exps[j]) })
		target := exps[c.Pick("which", len(exps))].Add(c.Dur("eps", -time.Second, -time.Millisecond, -1, 0, 1, time.Millisecond))
		if d := time.Until(target); d > 0 {
			time.Sleep(d)
		}
		c.Class("boundary-sweep")
		s.doSweep(n)
	case "forge":
		// A delta about the receiver itself at versions above its own, as peers
		// holding the state of an earlier incarnation of the same node id send.
		dst := s.pickFrom("node", live)
		others := filter(live, func(n *Node) bool { return n != dst })
		src := s.pickFrom("from", others)
		base := dst.n.State.LocalNode().Version
		var es []gossip.Entry
		for i, k := 0, c.Int("entries", 1, 3); i < k; i++ {
			e := gossip.Entry{Key: s.drawKey(), Value: s.drawVal(), Version: base + uint64(i) + 1}
			switch c.Pick("forgeKind", 4) {
			case 1:
				e = gossip.Entry{Key: gossip.VerifLeftKey, Version: e.Version, Internal: true}
			case 2:
				e = gossip.Entry{Key: gossip.VerifCompactKey, Value: strconv.FormatUint(base, 10), Version: e.Version, Internal: true}
			case 3:
				e.Deleted, e.Value = true, ""
			}
			es = append(es, e)
		}
		b, err := gossip.VerifEncodeDelta(src.id, src.addr, gossip.VerifDelta{{ID: dst.id, Addr: dst.addr, Entries: es}}, 1<<16)
		if err != nil {
			c.Harnessf("encode forged delta: %v", err)
		}
		s.begin("deliver", dst)
		s.ctx.sender = src
		time.Sleep(time.Microsecond)
		s.ctx.tStart = time.Now()
		c.Stepf("%s receives from %s a delta about itself at versions above its own: %+v", dst.id, src.id, es)
		c.Class("delta-about-receiver")
		_ = dst.n.HandlePacket(b)
		dst.lastHeard[src.id] = time.Now()
	case "addConn":
		n := s.pickFrom("node", writers)
		u := &fakeUp{ep: simEps[c.Pick("ep", len(simEps))], id: len(n.ups)}
		n.ups = append(n.ups, u)
		c.Stepf("%s: upstream #%d connects to %s", n.id, u.id, u.ep)
		n.mgr.AddConn(u)
		s.snapshotLocal(n)
	case "removeConn":
		cands := filter(writers, func(n *Node) bool { return len(n.ups) > 0 })
		n := s.pickFrom("node", cands)
		u := n.ups[c.Pick("u", len(n.ups))]
		c.Stepf("%s: upstream #%d of %s removed (removal no. %d)", n.id, u.id, u.ep, u.removed+1)
		if u.removed > 0 {
			c.Class("repeated-removal")
			for _, o := range n.ups {
				if o != u && o.ep == u.ep && o.removed == 0 {
					c.Class("repeated-removal-with-sibling")
				}
			}
		}
		u.removed++
		n.mgr.RemoveConn(u)
		s.snapshotLocal(n)
	}
	s.afterAction()
	s.checkAll()
}

func (s *Sim) doLiveness(n *Node) {
	s.begin("liveness", n)
	s.c.Stepf("%s: evaluate liveness", n.id)
	n.n.State.UpdateLiveness(gossip.VerifSuspicionThreshold)
}

func (s *Sim) doSweep(n *Node) {
	s.begin("sweep", n)
	s.c.Stepf("%s: expiry sweep", n.id)
	n.n.State.RemoveExpired()
}

// ---------------------------------------------------------------------------
// oracles

func entriesMap(ns *gossip.NodeState) map[string]gossip.Entry {
	m := map[string]gossip.Entry{}
	for _, e := range ns.Entries {
		m[e.Key] = e
	}
	return m
}

// afterAction runs after every atomic action (a step, or one packet delivery).
func (s *Sim) afterAction() {
	s.trackForget()
	s.checkMembership()
}

// trackForget maintains the forget epochs used to recognise finding F3.
func (s *Sim) trackForget() {
	for _, obs := range s.nodes {
		for _, owner := range s.nodes {
			if obs == owner {
				continue
			}
			_, known := obs.n.State.Node(owner.id)
			_, had := obs.lastVer[owner.id]
			if !known && had {
				obs.forget[owner.id]++
				obs.expired[owner.id] = true
				delete(obs.lastVer, owner.id)
				delete(obs.lastHeard, owner.id)
			}
		}
	}
}

func (s *Sim) checkAll() {
	c := s.c
	for _, owner := range s.nodes {
		cur := owner.n.State.LocalNode()
		if s.on("C02") || s.on("C13") {
			if !reflect.DeepEqual(cur, owner.lastLocal) {
				c.Fatalf("%s: published state of %s changed without a local write (during %s):\nbefore %+v\nafter  %+v", s.p.Prop, owner.id, s.ctx.kind, owner.lastLocal, cur)
			}
		}
		C := entriesMap(cur)
		var mcur uint64
		if ce, ok := C[gossip.VerifCompactKey]; ok {
			mcur = ce.Version
		}
		for _, obs := range s.nodes {
			if obs == owner {
				continue
			}
			view, ok := obs.n.State.Node(owner.id)
			if !ok {
				continue
			}
			v := view.Version
			lv, had := obs.lastVer[owner.id]
			obs.lastVer[owner.id] = v
			if !s.on("C02") {
				continue
			}
			if had && v < lv {
				c.Fatalf("C02: %s's version of %s moved backwards %d -> %d", obs.id, owner.id, lv, v)
			}
			if v > cur.Version {
				c.Fatalf("C02: %s reports %s at version %d, beyond the owner's %d", obs.id, owner.id, v, cur.Version)
			}
			V := entriesMap(view)
			for _, e := range view.Entries {
				h, ok := owner.hist[e.Version]
				if !ok || h != e {
					c.Fatalf("C02 authenticity: %s shows %+v for %s, which %s never wrote", obs.id, e, owner.id, owner.id)
				}
				if e.Version > v {
					c.Fatalf("C02: %s holds entry %+v of %s above the version %d it reports", obs.id, e, owner.id, v)
				}
				cc, inC := C[e.Key]
				if inC && cc == e {
					continue
				}
				if inC {
					if cc.Version <= v {
						c.Fatalf("C02 stale: %s reports %s up to version %d but shows %+v while the owner's current entry is %+v", obs.id, owner.id, v, e, cc)
					}
				} else if v >= mcur {
					c.Fatalf("C02 resurrect: %s reports %s up to version %d (compaction point %d) but still shows %+v which the owner deleted and compacted away", obs.id, owner.id, v, mcur, e)
				}
			}
			for _, cc := range cur.Entries {
				if cc.Version <= v {
					if got, ok := V[cc.Key]; !ok || got != cc {
						c.Fatalf("C02 loss: %s reports %s up to version %d but lacks %+v (has %+v, present=%v)", obs.id, owner.id, v, cc, got, ok)
					}
				}
			}
		}
	}
	if s.on("C05") {
		s.checkC05()
	}
	if s.on("C04") {
		s.checkC04()
	}
	if s.on("C14") {
		s.checkC14()
	}
	if s.on("C01") {
		s.checkC01()
	}
}

// checkC01: routing completeness. If a node's routing table lists some other
// node as active with a positive count for an endpoint, a lookup finds a server.
func (s *Sim) checkC01() {
	for _, x := range s.nodes {
		for _, ep := range simEps {
			var holder string
			dead := 0
			for _, n := range x.cs.Nodes() {
				if n.ID == x.id || n.Endpoints[ep] <= 0 {
					continue
				}
				if n.Status == cluster.NodeStatusActive {
					holder = n.ID
				} else {
					dead++
				}
			}
			rn, ok := x.cs.LookupEndpoint(ep)
			if holder != "" {
				s.c.Class("lookup-with-live-holder")
				if dead > 0 {
					s.c.Class("lookup-with-live-and-dead-holders")
					s.sawDeadAndLiveHolder = true
				}
				// map order decides which holder is visited first: ask repeatedly
				for i := 0; i < 8 && ok; i++ {
					rn, ok = x.cs.LookupEndpoint(ep)
				}
				if !ok {
					s.c.Fatalf("C01@%s: lookup(%s) finds no server although the routing table lists %s as active with upstreams for it (%d other holders are left/unreachable)", x.id, ep, holder, dead)
				}
				if rn.Endpoints[ep] <= 0 || rn.Status != cluster.NodeStatusActive || rn.ID == x.id {
					s.c.Fatalf("C01@%s: lookup(%s) returned %+v", x.id, ep, rn)
				}
			} else if ok {
				s.c.Fatalf("C01@%s: lookup(%s) returned %+v although no active node advertises it", x.id, ep, rn)
			}
		}
	}
}

func (s *Sim) checkC05() {
	c := s.c
	for _, n := range s.nodes {
		want := map[string]int{}
		for _, u := range n.ups {
			if u.removed == 0 {
				want[u.ep]++
			}
		}
		reg := n.mgr.Endpoints()
		if !reflect.DeepEqual(reg, want) {
			c.Fatalf("C05@%s: registry %v, upstreams actually registered %v", n.id, reg, want)
		}
		loc := n.cs.LocalNode().Endpoints
		if loc == nil {
			loc = map[string]int{}
		}
		if !reflect.DeepEqual(loc, want) {
			c.Fatalf("C05@%s: node advertises %v in its cluster state, upstreams actually registered %v", n.id, loc, want)
		}
		gl := map[string]int{}
		for _, e := range n.n.State.LocalNode().Entries {
			if strings.HasPrefix(e.Key, "endpoint:") && !e.Deleted {
				cnt, err := strconv.Atoi(e.Value)
				if err != nil {
					c.Fatalf("C05@%s: gossip entry %+v is not a count", n.id, e)
				}
				gl[strings.TrimPrefix(e.Key, "endpoint:")] = cnt
			}
		}
		if !reflect.DeepEqual(gl, want) {
			c.Fatalf("C05@%s: node gossips endpoint counts %v, upstreams actually registered %v", n.id, gl, want)
		}
	}
}

func (s *Sim) checkC04() {
	c := s.c
	for _, owner := range s.nodes {
		ol := owner.cs.LocalNode()
		ov := owner.n.State.LocalNode().Version
		for _, obs := range s.nodes {
			if obs == owner {
				continue
			}
			view, known := obs.n.State.Node(owner.id)
			rn, inTable := obs.cs.Node(owner.id)
			if !known {
				if inTable {
					c.Fatalf("C04@%s: %s is in the routing table but gossip has forgotten it", obs.id, owner.id)
				}
				continue
			}
			if inTable {
				want := cluster.NodeStatusActive
				if view.Left {
					want = cluster.NodeStatusLeft
				} else if view.Unreachable {
					want = cluster.NodeStatusUnreachable
				}
				if rn.Status != want {
					c.Fatalf("C04@%s: routing status of %s is %s, gossip flags say %s", obs.id, owner.id, rn.Status, want)
				}
				// whatever it lists was advertised by the owner at some time
				if rn.ProxyAddr != ol.ProxyAddr || rn.AdminAddr != ol.AdminAddr {
					c.Fatalf("C04@%s: routing table has addresses %s/%s for %s, owner advertises %s/%s", obs.id, rn.ProxyAddr, rn.AdminAddr, owner.id, ol.ProxyAddr, ol.AdminAddr)
				}
			}
			if view.Version != ov {
				continue
			}
			s.c.Class("caught-up-pair-checked")
			if !inTable {
				c.Fatalf("C04@%s: caught up with %s (version %d) but %s is not in the routing table", obs.id, owner.id, ov, owner.id)
			}
			if !reflect.DeepEqual(rn.Endpoints, ol.Endpoints) {
				c.Fatalf("C04@%s: caught up with %s (version %d): routing table lists endpoints %v, owner advertises %v", obs.id, owner.id, ov, rn.Endpoints, ol.Endpoints)
			}
		}
		for _, ep := range simEps {
			if rn, ok := owner.cs.LookupEndpoint(ep); ok {
				tn, inT := owner.cs.Node(rn.ID)
				if rn.ID == owner.id || !inT || tn.Status != cluster.NodeStatusActive || tn.Endpoints[ep] <= 0 {
					c.Fatalf("C04@%s: lookup(%s) returned %+v (table entry %+v)", owner.id, ep, rn, tn)
				}
				gm, known := owner.n.State.Node(rn.ID)
				if !known || gm.Left || gm.Unreachable {
					c.Fatalf("C04@%s: lookup(%s) returned %s which gossip considers left/unreachable/unknown (%+v)", owner.id, ep, rn.ID, gm)
				}
			}
		}
	}
}

func (s *Sim) checkC14() {
	c := s.c
	for _, obs := range s.nodes {
		known := map[string]gossip.NodeMetadata{}
		for _, m := range obs.n.State.Nodes() {
			if m.ID != obs.id {
				known[m.ID] = m
			}
		}
		if len(known) != len(obs.w.f) {
			c.Fatalf("C14@%s: gossip knows %v, folded notifications give %v", obs.id, keysOf(known), keysOf(obs.w.f))
		}
		for id, m := range known {
			f, ok := obs.w.f[id]
			if !ok {
				c.Fatalf("C14@%s: node %s is visible but was never announced", obs.id, id)
			}
			ns, _ := obs.n.State.Node(id)
			vis := map[string]string{}
			for _, e := range ns.Entries {
				if !e.Internal && !e.Deleted {
					vis[e.Key] = e.Value
				}
			}
			if !reflect.DeepEqual(vis, f.keys) {
				c.Fatalf("C14@%s: node %s: visible keys %v, folded notifications %v", obs.id, id, vis, f.keys)
			}
			if m.Left != f.left || m.Unreachable != f.unrch {
				c.Fatalf("C14@%s: node %s: flags left=%v unreachable=%v, folded left=%v unreachable=%v", obs.id, id, m.Left, m.Unreachable, f.left, f.unrch)
			}
		}
	}
}

func keysOf[V any](m map[string]V) []string {
	var k []string
	for x := range m {
		k = append(k, x)
	}
	sort.Strings(k)
	return k
}

// checkMembership: C11 invariants, evaluated after every atomic action.
func (s *Sim) checkMembership() {
	c := s.c
	on := s.on("C11")
	now := time.Now()
	ctx := s.ctx
	for _, o := range s.nodes {
		cur := map[string]gossip.NodeMetadata{}
		for _, m := range o.n.State.Nodes() {
			cur[m.ID] = m
		}
		if on {
			lm, ok := cur[o.id]
			if !ok {
				c.Fatalf("C11 I1: %s removed itself from its own view", o.id)
			}
			if lm.Unreachable || !lm.Expiry.IsZero() {
				c.Fatalf("C11 I1: %s marked itself unreachable/expiring: %+v", o.id, lm)
			}
			if lm.Left != o.left {
				c.Fatalf("C11 I1: %s's own left flag is %v but it has left=%v (only the node itself can declare itself left)", o.id, lm.Left, o.left)
			}
		}
		for id, m := range cur {
			if id == o.id {
				continue
			}
			p, had := o.prev[id]
			x := s.byID(id)
			if on {
				if m.Expiry.IsZero() == (m.Left || m.Unreachable) {
					c.Fatalf("C11 I4: %s's view of %s: left=%v unreachable=%v but expiry=%v", o.id, id, m.Left, m.Unreachable, m.Expiry)
				}
				if had && p.Left && !m.Left {
					c.Fatalf("C11 I2: %s had seen %s as left and now treats it as not left", o.id, id)
				}
				if m.Left && x != nil && !x.left {
					c.Fatalf("C11 I1: %s considers %s left although %s never declared that", o.id, id, id)
				}
				if view, ok := o.n.State.Node(id); ok {
					for _, e := range view.Entries {
						if e.Internal && e.Key == gossip.VerifLeftKey && !m.Left {
							c.Fatalf("C11 I2: %s holds %s's leave marker but does not see it as left", o.id, id)
						}
					}
					// whoever has learned everything a left node published sees it as left
					if x != nil && x.left && !m.Left && view.Version == x.n.State.LocalNode().Version {
						c.Fatalf("C11 I2: %s has caught up with everything %s published (version %d), %s has left, yet %s does not see it as left", o.id, id, view.Version, id, o.id)
					}
				}
				if !m.Expiry.IsZero() && (!had || !p.Expiry.Equal(m.Expiry)) {
					base := m.Expiry.Add(-gossip.VerifNodeExpiry)
					if base.Before(ctx.tStart) || base.After(now) {
						c.Fatalf("C11 I4: %s set the expiry of %s to %v during an action spanning [%v,%v]: not the expiry period from now", o.id, id, m.Expiry, ctx.tStart, now)
					}
				}
				if had && p.Unreachable != m.Unreachable && !(ctx.kind == "liveness" && ctx.node == o) {
					c.Fatalf("C11: %s toggled unreachable of %s outside a liveness evaluation (%s)", o.id, id, ctx.kind)
				}
				if m.Left || m.Unreachable {
					for _, ep := range simEps {
						if rn, ok := o.cs.LookupEndpoint(ep); ok && rn.ID == id {
							c.Fatalf("C11: %s routes %s to %s which it considers left=%v unreachable=%v", o.id, ep, id, m.Left, m.Unreachable)
						}
					}
				}
			}
			if !had {
				// (re)learning
				relearn := o.everKnown[id]
				viaDigest := false
				for _, de := range ctx.digest {
					if de.ID == id {
						viaDigest = true
						if de.Left && on {
							c.Fatalf("C11 I3: %s (re)learned %s from a digest entry flagged left", o.id, id)
						}
					}
				}
				if on && !((ctx.kind == "deliver" || ctx.kind == "join" || ctx.kind == "leaveVia") && (ctx.node == o || ctx.sender == o)) {
					c.Fatalf("C11: %s learned of %s during %s", o.id, id, ctx.kind)
				}
				if relearn && o.expired[id] && x != nil && x.crashed && ctx.sender != x {
					// the subject is gone and has sent nothing since: only a relayed stale entry can bring it back
					c.Class("relearn-gone-node")
					sig := fmt.Sprintf("expired node re-introduced: observer=%s subject=%s via_peer_digest=%v subject_left=%v", o.id, id, viaDigest, x.left)
					// ApplyDigest runs on o for a delivered digest packet and for the digest carried by a join request
					isDigestPkt := (ctx.kind == "deliver" || ctx.kind == "join") && ctx.node == o && viaDigest
					if on {
						if isDigestPkt && !m.Left {
							if s.p.Prop != "C11" {
								// the membership rules run under another property's test (C12): F2 is C11's
								// finding, reported by C11's checks; here its effect is only adopted
								c.Class("F2-effect-adopted")
							} else if !c.Known("F2", "a node that was expired after crashing/closing is re-introduced as live by a peer's digest entry (Left=false) although it sent nothing since") {
								c.Fatalf("C11 I6: %s", sig)
							}
							o.zombie[id] = true
						} else if ctx.kind == "join" {
							// learned again through a join response; joins are start-up only (excluded by the generator)
							c.Fatalf("C11 I6 (join): %s", sig)
						} else {
							c.Fatalf("C11 I6: %s re-learned the gone node %s other than through a peer digest: %s", o.id, id, sig)
						}
					}
				}
				o.everKnown[id] = true
				o.learnedAt[id] = now
			}
		}
		for id, p := range o.prev {
			if id == o.id {
				continue
			}
			_, still := cur[id]
			expired := !p.Expiry.IsZero() && now.After(p.Expiry)
			if ctx.kind == "sweep" && ctx.node == o {
				if on && expired && still {
					c.Fatalf("C11 I4: sweep on %s at %v kept %s whose expiry %v has passed", o.id, now, id, p.Expiry)
				}
				if on && !expired && !still {
					c.Fatalf("C11 I4: sweep on %s at %v removed %s before its expiry (%v, left=%v unreachable=%v)", o.id, now, id, p.Expiry, p.Left, p.Unreachable)
				}
				if !still {
					c.Class("expired-a-node")
					if on {
						if _, inTable := o.cs.Node(id); inTable {
							c.Fatalf("C11 I4: %s expired %s but keeps it in the routing table", o.id, id)
						}
					}
					// skewed expiry: another live node still lists the subject
					for _, other := range s.nodes {
						if other != o && !other.crashed {
							if _, k := other.n.State.Node(id); k {
								s.sawSkewExpiry = true
							}
						}
					}
				}
			} else if !still && on {
				c.Fatalf("C11: %s forgot %s outside an expiry sweep (%s)", o.id, id, ctx.kind)
			}
		}
		if on && ctx.kind == "liveness" && ctx.node == o {
			for id, m := range cur {
				if id == o.id || m.Left {
					continue
				}
				susp := o.n.Suspicion(id)
				if m.Unreachable != (susp > gossip.VerifSuspicionThreshold) {
					c.Fatalf("C11 I5: %s: %s unreachable=%v but suspicion level is %v (threshold %d)", o.id, id, m.Unreachable, susp, gossip.VerifSuspicionThreshold)
				}
				// a peer that was learned recently and has not been heard from since is
				// measured against the bootstrap interval alone (whatever was known about
				// an earlier incarnation of that id is gone with it)
				if la, ok := o.learnedAt[id]; ok && m.Unreachable {
					// (lastHeard is cleared when the peer is forgotten, as the detector's state is)
					_, heard := o.lastHeard[id]
					if !heard && now.Sub(la) <= time.Duration(gossip.VerifSuspicionThreshold)*2*gossipInterval {
						c.Fatalf("C11 I5: %s learned of %s only %v ago and has never heard from it (since it last forgot it), yet marks it unreachable (a never-heard peer is suspected after %d bootstrap intervals of %v)", o.id, id, now.Sub(la), gossip.VerifSuspicionThreshold, 2*gossipInterval)
					}
				}
				if lh, ok := o.lastHeard[id]; ok && lh.Equal(now) && m.Unreachable {
					c.Fatalf("C11 I5: %s heard from %s at this very instant yet marks it unreachable", o.id, id)
				}
				if p, had := o.prev[id]; had && p.Unreachable && !m.Unreachable {
					s.sawRecover = true
					c.Class("unreachable-then-recovered")
				}
			}
		}
		o.prev = cur
	}
}

// ---------------------------------------------------------------------------
// C03 closure

// Closure stops all writes, heals partitions and runs fair rounds of full
// push-pull exchanges among the live nodes until every live node's view of
// every live node equals that node's own state.
func (s *Sim) Closure() (rounds int) {
	c := s.c
	s.q = nil
	s.blocked = map[[2]int]bool{}
	s.closure = true
	var live []*Node
	for _, n := range s.nodes {
		if !n.crashed && !n.left {
			live = append(live, n)
		}
	}
	if len(live) < 2 {
		return 0
	}
	// Liveness bookkeeping does not matter for convergence, but nodes only
	// gossip with peers they know; make the live set connected: every live
	// node knows (by digest discovery) at least node live[0] or is known by it.
	diverged := func() (bool, string, int) {
		missing := 0
		why := ""
		for _, o := range live {
			want := o.n.State.LocalNode()
			for _, x := range live {
				if x == o {
					continue
				}
				got, ok := x.n.State.Node(o.id)
				if !ok {
					missing += len(want.Entries) + 1
					why = fmt.Sprintf("%s does not know %s", x.id, o.id)
					continue
				}
				if got.Version != want.Version || !reflect.DeepEqual(got.Entries, want.Entries) {
					for _, e := range want.Entries {
						if e.Version > got.Version {
							missing++
						}
					}
					missing++
					why = fmt.Sprintf("%s's view of %s is at version %d with %d entries; %s is at version %d with %d entries", x.id, o.id, got.Version, len(got.Entries), o.id, want.Version, len(want.Entries))
				}
			}
		}
		return missing > 0, why, missing
	}
	fingerprint := func() string {
		var sb strings.Builder
		for _, x := range live {
			ms := x.n.State.Nodes()
			sort.Slice(ms, func(i, j int) bool { return ms[i].ID < ms[j].ID })
			for _, m := range ms {
				fmt.Fprintf(&sb, "%s:%s@%d ", x.id, m.ID, m.Version)
			}
		}
		return sb.String()
	}
	_, _, missing0 := diverged()
	c.Header["closure_missing_items"] = missing0
	maxDigest := len(s.nodes)
	bound := (missing0 + len(live)*len(live) + 2) * (maxDigest + 1)
	idle := 0
	for {
		d, why, _ := diverged()
		if !d {
			break
		}
		before := fingerprint()
		for _, a := range live {
			for _, b := range live {
				if a == b {
					continue
				}
				// the closure is among nodes that can reach each other: a learns of b
				// through membership exchange; if a does not know b it cannot initiate.
				if _, known := a.n.State.Node(b.id); !known {
					continue
				}
				s.begin("gossip", nil)
				if err := a.n.GossipTo(gossip.NodeMetadata{ID: b.id, Addr: b.addr}); err != nil {
					c.Fatalf("C03: gossip %s->%s failed: %v", a.id, b.id, err)
				}
				for guard := 0; len(s.q) > 0; guard++ {
					if guard > 50 {
						c.Fatalf("C03: one exchange produced an unbounded packet chain")
					}
					s.deliverIdx(0)
				}
			}
		}
		s.checkAll()
		rounds++
		s.round++
		if fingerprint() == before {
			idle++
		} else {
			idle = 0
		}
		if idle > maxDigest+1 {
			c.Fatalf("C03: no progress in %d consecutive fair rounds (after %d rounds) while not converged: %s", idle, rounds, why)
		}
		if rounds > bound {
			c.Fatalf("C03: not converged after %d rounds (bound %d for %d outstanding items): %s", rounds, bound, missing0, why)
		}
	}
	c.Stepf("closure: converged in %d rounds (%d items were outstanding)", rounds, missing0)
	return rounds
}

// liveConnected reports whether the live, non-left nodes form one component of
// the "knows" relation (nodes that have forgotten each other entirely cannot
// exchange gossip at all).
func (s *Sim) liveConnected() bool {
	var live []*Node
	for _, n := range s.nodes {
		if !n.crashed && !n.left {
			live = append(live, n)
		}
	}
	if len(live) < 2 {
		return true
	}
	seen := map[*Node]bool{live[0]: true}
	for changed := true; changed; {
		changed = false
		for _, a := range live {
			for _, b := range live {
				if a == b || seen[a] == seen[b] {
					continue
				}
				_, ab := a.n.State.Node(b.id)
				_, ba := b.n.State.Node(a.id)
				if ab || ba {
					seen[a], seen[b] = true, true
					changed = true
				}
			}
		}
	}
	return len(seen) == len(live)
}

func gossipMeta(n *Node) gossip.NodeMetadata { return gossip.NodeMetadata{ID: n.id, Addr: n.addr} }
