package sim

import (
	"fmt"
	"net"
	"os"
	"reflect"
	"sync/atomic"
	"testing"
	"time"

	"github.com/andydunstall/piko/pkg/gossip"
	"github.com/andydunstall/piko/pkg/log"

	"verif/harness/vlib"
)

// The SIM engine drives the packet path with the real handlers, but reaches the
// stream handlers through a hand-written client side. The tests in this file run
// the real client side as well: real gossip.New instances on loopback TCP/UDP
// sockets whose gossip interval is an hour, so that the only exchanges are the
// Join and Leave calls the generator makes.

type streamNode struct {
	id, addr string
	g        *gossip.Gossip
	tcp      net.Listener
	udp      net.PacketConn
	hist     map[uint64]gossip.Entry
	last     *gossip.NodeState // own state after the last local write
	left     bool
	lastVer  map[string]uint64
}

// Every case gets its own loopback address (all of 127/8 is local): thousands of
// cases per process would otherwise exhaust the ephemeral ports of 127.0.0.1
// (every join and leave is a TCP connection that lingers in TIME_WAIT).
var streamCase atomic.Int64

func streamIP() string {
	n := int(streamCase.Add(1))
	return fmt.Sprintf("127.%d.%d.%d", 16+os.Getpid()%224, (n/254)%256, 1+n%254)
}

func listenBoth(ip string) (net.Listener, net.PacketConn, error) {
	var lastErr error
	for try := 0; try < 50; try++ {
		tcp, err := net.Listen("tcp", ip+":0")
		if err != nil {
			lastErr = err
			continue
		}
		udp, err := net.ListenPacket("udp", tcp.Addr().String())
		if err != nil {
			tcp.Close()
			lastErr = err
			continue
		}
		return tcp, udp, nil
	}
	return nil, nil, lastErr
}

func (n *streamNode) snapshot(c *vlib.Case, prop string) {
	ls := n.g.LocalNode()
	for _, e := range ls.Entries {
		if old, ok := n.hist[e.Version]; ok && old != e {
			c.Fatalf(prop+": version %d of %s used for two different entries: %+v and %+v", e.Version, n.id, old, e)
		}
		n.hist[e.Version] = e
	}
	n.last = ls
}

func (n *streamNode) view(id string) (*gossip.NodeState, bool) {
	if n.left {
		return nil, false // closed: its views no longer matter
	}
	return n.g.Node(id)
}

func checkStream(c *vlib.Case, prop string, nodes []*streamNode, during string) {
	for _, owner := range nodes {
		cur := owner.last
		if !owner.left {
			if now := owner.g.LocalNode(); !reflect.DeepEqual(now, cur) {
				c.Fatalf(prop+": published state of %s changed without a local write (during %s):\nbefore %+v\nafter  %+v", owner.id, during, cur, now)
			}
		}
		C := entriesMap(cur)
		var mcur uint64
		if ce, ok := C[gossip.VerifCompactKey]; ok {
			mcur = ce.Version
		}
		for _, obs := range nodes {
			if obs == owner {
				continue
			}
			view, ok := obs.view(owner.id)
			if !ok {
				continue
			}
			v := view.Version
			if lv, had := obs.lastVer[owner.id]; had && v < lv {
				c.Fatalf(prop+": %s's version of %s moved backwards %d -> %d (during %s)", obs.id, owner.id, lv, v, during)
			}
			obs.lastVer[owner.id] = v
			if v > cur.Version {
				c.Fatalf(prop+": %s reports %s at version %d, beyond the owner's %d", obs.id, owner.id, v, cur.Version)
			}
			V := entriesMap(view)
			for _, e := range view.Entries {
				h, ok := owner.hist[e.Version]
				if !ok || h != e {
					c.Fatalf(prop+" authenticity: %s shows %+v for %s, which %s never wrote", obs.id, e, owner.id, owner.id)
				}
				if e.Version > v {
					c.Fatalf(prop+": %s holds entry %+v of %s above the version %d it reports", obs.id, e, owner.id, v)
				}
				cc, inC := C[e.Key]
				if inC && cc == e {
					continue
				}
				if inC {
					if cc.Version <= v {
						c.Fatalf(prop+" stale: after %s, %s reports %s up to version %d but shows %+v while the owner's current entry is %+v", during, obs.id, owner.id, v, e, cc)
					}
				} else if v >= mcur {
					c.Fatalf(prop+" resurrect: after %s, %s reports %s up to version %d (compaction point %d) but still shows %+v which the owner deleted and compacted away", during, obs.id, owner.id, v, mcur, e)
				}
			}
			for _, cc := range cur.Entries {
				if cc.Version <= v {
					if got, ok := V[cc.Key]; !ok || got != cc {
						c.Fatalf(prop+" loss: after %s, %s reports %s up to version %d but lacks %+v (has %+v, present=%v)", during, obs.id, owner.id, v, cc, got, ok)
					}
				}
			}
		}
	}
}

const streamRule = "2-4 real gossip.New instances on loopback TCP/UDP sockets with a one-hour gossip interval, so that the only exchanges are the generated ones: interleaved local upserts/deletes/compactions, Join calls between drawn pairs (the real client and server side of the join stream) and graceful Leave calls (the real leave stream to every known peer) followed by Close; oracle after every step: the C02 rules of the simulation (authentic entries, no entry above the reported version, no stale or lost key at or below it, no resurrected key at or beyond the compaction point, reported versions never move backwards, own state changed only by local writes) and, additionally, every peer that was told of a leave shows the leaver as left with exactly its final state; non-trivial = some node left after writes that no peer had seen, or a join happened after a compaction"

func TestC02Stream(t *testing.T) {
	vlib.SetRule("C02", "TestC02Stream", streamRule)
	runStream(t, "C02")
}

// TestC17Stream is the same generator and oracle claimed for C17's last clause:
// observers that synchronise (here: over the join stream, after compactions) end
// up with the owner's live state.
func TestC17Stream(t *testing.T) {
	vlib.SetRule("C17", "TestC17Stream", "observers synchronising over the real join/leave streams: "+streamRule)
	runStream(t, "C17")
}

func runStream(t *testing.T, prop string) {
	vlib.Run(t, prop, func(c *vlib.Case) {
		N := c.Int("nodes", 2, 4)
		var nodes []*streamNode
		defer func() {
			for _, n := range nodes {
				if !n.left {
					_ = n.g.Close()
				}
			}
		}()
		ip := streamIP()
		for i := 0; i < N; i++ {
			tcp, udp, err := listenBoth(ip)
			if err != nil {
				c.Harnessf("listen: %v", err)
			}
			addr := tcp.Addr().String()
			conf := &gossip.Config{BindAddr: addr, AdvertiseAddr: addr, Interval: time.Hour, MaxPacketSize: 1400}
			n := &streamNode{id: fmt.Sprintf("n%d", i), addr: addr, tcp: tcp, udp: udp, hist: map[uint64]gossip.Entry{}, lastVer: map[string]uint64{}}
			n.g = gossip.New(n.id, conf, tcp, udp, nopW{}, log.NewNopLogger())
			n.snapshot(c, prop)
			nodes = append(nodes, n)
		}
		liveNodes := func() []*streamNode {
			var o []*streamNode
			for _, n := range nodes {
				if !n.left {
					o = append(o, n)
				}
			}
			return o
		}
		compacted := map[string]bool{}
		for step, k := 0, c.Int("steps", 4, 40); step < k; step++ {
			live := liveNodes()
			if len(live) == 0 {
				break
			}
			n := live[c.Pick("node", len(live))]
			kind := c.Weighted("step", []string{"upsert", "delete", "compact", "join", "leave"}, []int{8, 4, 2, 5, 1})
			var what string
			switch kind {
			case "upsert":
				key, val := simKeys[c.Pick("key", len(simKeys))], c.OneOf("val", "", "1", "2", "x", "värde")
				n.g.UpsertLocal(key, val)
				what = fmt.Sprintf("%s upserts %q=%q", n.id, key, val)
			case "delete":
				key := simKeys[c.Pick("key", len(simKeys))]
				n.g.DeleteLocal(key)
				what = fmt.Sprintf("%s deletes %q", n.id, key)
			case "compact":
				thr := c.Int("threshold", 1, 3)
				n.g.VerifCompactLocal(thr)
				compacted[n.id] = true
				what = fmt.Sprintf("%s compacts (threshold %d)", n.id, thr)
			case "join":
				if len(live) < 2 {
					continue
				}
				var others []*streamNode
				for _, o := range live {
					if o != n {
						others = append(others, o)
					}
				}
				peer := others[c.Pick("peer", len(others))]
				if _, err := n.g.Join([]string{peer.addr}); err != nil {
					c.Fatalf(prop+": join of %s via the live node %s failed: %v", n.id, peer.id, err)
				}
				if compacted[n.id] || compacted[peer.id] {
					c.NonTrivial()
					c.Class("join-after-compaction")
				}
				what = fmt.Sprintf("%s joins via %s", n.id, peer.id)
			case "leave":
				// which live peers does it know, and have they seen all of its writes?
				unseen := false
				var told []*streamNode
				for _, o := range live {
					if o == n {
						continue
					}
					if _, known := n.g.Node(o.id); !known {
						continue
					}
					told = append(told, o)
					if v, ok := o.g.Node(n.id); !ok || v.Version < n.g.LocalNode().Version {
						unseen = true
					}
				}
				if err := n.g.Leave(); err != nil && len(told) > 0 {
					c.Fatalf(prop+": leave of %s failed although it knows live peers: %v", n.id, err)
				}
				n.snapshot(c, prop)
				_ = n.g.Close()
				n.left = true
				what = fmt.Sprintf("%s leaves (tells %d peers, unseen writes: %v) and closes", n.id, len(told), unseen)
				if unseen && len(told) > 0 {
					c.NonTrivial()
					c.Class("leave-with-unseen-writes")
				}
				// every told peer now holds the leaver's final state
				for _, o := range told {
					v, ok := o.g.Node(n.id)
					if !ok {
						c.Fatalf(prop+": %s was told that %s leaves but does not know it", o.id, n.id)
					}
					if !v.Left {
						c.Fatalf(prop+": %s was told that %s leaves but does not show it as left", o.id, n.id)
					}
					if v.Version != n.last.Version || !reflect.DeepEqual(entriesMap(v), entriesMap(n.last)) {
						c.Fatalf(prop+" loss: %s was sent the final state of the leaving node %s (version %d, %+v) but holds version %d, %+v", o.id, n.id, n.last.Version, n.last.Entries, v.Version, v.Entries)
					}
				}
			}
			if !n.left {
				n.snapshot(c, prop)
			}
			c.Stepf("%s", what)
			checkStream(c, prop, nodes, what)
		}
	})
}
