package sim

import (
	"fmt"
	"reflect"
	"testing"
	"time"

	"github.com/andydunstall/piko/pkg/gossip"
	"github.com/andydunstall/piko/server/cluster"

	"verif/harness/vlib"
)

func steps(c *vlib.Case, p *Profile) int {
	max := p.MaxSteps
	if max == 0 {
		max = 60
	}
	return c.Int("steps", 1, max)
}

func TestC02(t *testing.T) {
	vlib.SetRule("C02", "TestC02", "generated histories (2-4 nodes, <=60 steps quick / <=150 thorough) of local writes, compactions, leaves, joins, gossip rounds and per-packet deliver/drop/duplicate/reorder/partition steps over real gossip nodes with per-node packet limits down to the minimum viable size; a third of the cases never forget a node; oracle after every step: authenticity against the owner's recorded write history, no loss/rollback up to the reported version, staleness only as permitted by the compaction point, own state untouched by received messages, versions monotone; non-trivial = a truncated delta AND one of relay-only learning, duplicate delivery, reordering, compaction after a delete")
	p := &Profile{Prop: "C02", Oracles: map[string]bool{"C02": true}, AllowNoSweep: true, TinyPackets: true, LongVals: 5, MaxSteps: maxSteps(60, 150), MaxNodes: maxSteps(4, 6), WriteAfterLeave: true,
		Weights: map[string]int{"compact": 6, "delete": 7}}
	vlib.RunSync(t, "C02", func(c *vlib.Case) {
		s := New(c, p)
		n := steps(c, p)
		for i := 0; i < n; i++ {
			s.Step()
		}
		if s.sawTrunc && (s.sawRelay || s.sawDup || s.sawReorder || s.sawCompactAfterDelete) {
			c.NonTrivial()
		}
		if s.noSweep {
			c.Class("no-sweep-case")
		}
	})
}

func TestC14(t *testing.T) {
	vlib.SetRule("C14", "TestC14", "same history generator as C02 (a node that has left but is still running keeps writing and deleting keys, as a server whose upstream handlers withdraw their endpoints after the departure was announced); oracle after every step: the fold of all watcher notifications received by a node (join before keys, upsert/delete edits, leave/unreachable/reachable flags, expired removes) equals its visible view of every remote node; non-trivial = a compaction after a delete occurred and some delta was truncated")
	p := &Profile{Prop: "C14", Oracles: map[string]bool{"C14": true}, TinyPackets: true, MaxSteps: maxSteps(60, 150), MaxNodes: maxSteps(4, 6), WriteAfterLeave: true,
		Weights: map[string]int{"compact": 6, "delete": 7, "leave": 2}}
	vlib.RunSync(t, "C14", func(c *vlib.Case) {
		s := New(c, p)
		n := steps(c, p)
		for i := 0; i < n; i++ {
			s.Step()
		}
		if s.sawTrunc && s.sawCompactAfterDelete {
			c.NonTrivial()
		}
	})
}

func TestC03(t *testing.T) {
	vlib.SetRule("C03", "TestC03", "any generated history as the (possibly divergent) start, then writes stop, partitions heal and fair rounds of full push-pull exchanges between all ordered pairs of live nodes run (digest order rotating); oracle: every live node's view of every live node becomes structurally identical to that node's own state, with no idle streak of fair rounds and within a bound proportional to the outstanding items; non-trivial = at least 3 items outstanding at the start of the closure with a packet limit that truncates, or a compaction after a delete before the closure")
	p := &Profile{Prop: "C03", Oracles: map[string]bool{"C03": true}, TinyPackets: true, MaxSteps: maxSteps(50, 120),
		Weights: map[string]int{"deliver": 8, "drop": 6, "upsert": 12, "delete": 6}}
	vlib.RunSync(t, "C03", func(c *vlib.Case) {
		s := New(c, p)
		n := steps(c, p)
		for i := 0; i < n; i++ {
			s.Step()
		}
		// a burst of writes that nobody has gossiped yet: the closure starts far behind
		burst := c.Int("burst", 0, 40)
		for i := 0; i < burst; i++ {
			var writers []*Node
			for _, nd := range s.nodes {
				if !nd.crashed && !nd.left {
					writers = append(writers, nd)
				}
			}
			if len(writers) == 0 {
				break
			}
			nd := writers[c.Pick("burstNode", len(writers))]
			if c.Chance("burstDelete", 1, 5) {
				nd.n.State.DeleteLocal(s.drawKey())
			} else {
				nd.n.State.UpsertLocal(s.drawKey()+c.OneOf("suffix", "", "1", "2", "3", "4"), vlib.Draw(c, genVal, "val"))
			}
			s.snapshotLocal(nd)
		}
		c.Stepf("burst of %d un-gossiped writes", burst)
		if !s.liveConnected() {
			c.Class("closure-skipped-live-set-disconnected")
			return
		}
		truncBefore := s.sawTrunc
		s.sawTrunc = false
		rounds := s.Closure()
		missing, _ := c.Header["closure_missing_items"].(int)
		if (missing >= 3 && s.sawTrunc) || (s.sawCompactAfterDelete && missing > 0) {
			c.NonTrivial()
		}
		if s.sawTrunc {
			c.Class("closure-with-truncation")
		}
		_ = truncBefore
		vlib.AddExtra("C03", "TestC03", "closure_rounds_total", float64(rounds))
		if rounds >= 3 {
			c.Class("closure>=3rounds")
		}
	})
}

func TestC04(t *testing.T) {
	vlib.SetRule("C04", "TestC04", "histories with upstream connects/disconnects on owners (through the real manager and syncer), liveness, leave and expiry steps, late joins and lossy truncated gossip; oracle: whenever an observer's gossip version of an owner equals the owner's version the routing table lists exactly the owner's addresses and endpoint counts and the status mirrors the gossip flags; every lookup returns an active non-local node with a positive count; non-trivial = an endpoint was withdrawn and some observer caught up with that owner afterwards, with a truncated delta or a compaction in the history")
	p := &Profile{Prop: "C04", Oracles: map[string]bool{"C04": true}, TinyPackets: true, MaxSteps: maxSteps(60, 150),
		Weights: map[string]int{"addConn": 8, "removeConn": 8, "upsert": 3, "delete": 2}}
	vlib.RunSync(t, "C04", func(c *vlib.Case) {
		s := New(c, p)
		n := steps(c, p)
		withdrawn := false
		for i := 0; i < n; i++ {
			s.Step()
			for _, nd := range s.nodes {
				for _, u := range nd.ups {
					if u.removed > 0 {
						withdrawn = true
					}
				}
			}
		}
		if withdrawn && (s.sawTrunc || s.sawCompactAfterDelete) {
			c.NonTrivial()
		}
	})
}

func TestC05Sim(t *testing.T) {
	vlib.SetRule("C05", "TestC05Sim", "histories of upstream registrations and (repeated, late) removals on the real manager of each simulated node interleaved with gossip and compaction; oracle after every step: registry == cluster-state endpoints == live endpoint:<id> gossip entries == the model's multiset of registered upstreams; non-trivial = a removal repeated while a sibling upstream of the same endpoint stays registered")
	p := &Profile{Prop: "C05", Oracles: map[string]bool{"C05": true}, MaxSteps: maxSteps(60, 120),
		Weights: map[string]int{"addConn": 12, "removeConn": 14, "upsert": 2, "delete": 1, "crash": 0, "partition": 0}}
	vlib.RunSync(t, "C05", func(c *vlib.Case) {
		s := New(c, p)
		n := steps(c, p)
		for i := 0; i < n; i++ {
			s.Step()
		}
		for _, nd := range s.nodes {
			for _, u := range nd.ups {
				if u.removed >= 2 {
					for _, o := range nd.ups {
						if o != u && o.ep == u.ep {
							c.NonTrivial()
						}
					}
				}
			}
		}
	})
}

func TestC11(t *testing.T) {
	vlib.SetRule("C11", "TestC11", "histories with leave (plus leave notifications and close), crash, partition/heal, virtual-time advances, liveness evaluations and expiry sweeps on every survivor independently, with directed steps that sleep to either side of the suspicion threshold and of a known expiry instant (+-1ns..1s); half of the cases are biased to the lifecycle steps after a crash; oracle after every atomic action: I1-I6 of DESIGN.md (local node immune, left is sticky and only self-declared, left digest entries never re-introduce, expiry set/cleared/enforced exactly on the virtual clock, unreachable == suspicion above threshold, gone nodes stay forgotten); non-trivial = a node was expired while another live node still listed it, or an unreachable node recovered")
	vlib.RunSync(t, "C11", func(c *vlib.Case) {
		p := &Profile{Prop: "C11", Oracles: map[string]bool{"C11": true}, MaxSteps: maxSteps(70, 150),
			Weights: map[string]int{"leave": 3, "leaveVia": 3, "close": 2, "crash": 3, "silence": 5, "toExpiry": 6, "sweep": 3, "liveness": 4, "upsert": 4, "delete": 3, "compact": 3, "addConn": 2, "removeConn": 1}}
		p.Lifecycle = c.Bool("lifecycleBias")
		s := New(c, p)
		n := steps(c, p)
		for i := 0; i < n; i++ {
			s.Step()
		}
		if s.sawSkewExpiry || s.sawRecover {
			c.NonTrivial()
		}
		if s.sawSkewExpiry {
			c.Class("skewed-expiry")
		}
	})
}

func TestC13Sim(t *testing.T) {
	vlib.SetRule("C13", "TestC13Sim", "every digest and delta emitted by the real handlers inside generated histories (packet limits down to the minimum viable): length <= limit, decodes, digest entries are distinct members of the sender's digest, a delta equals the longest whole-item prefix of the sender's intended delta (recomputed by the harness with the real state) that fits, entries per node in increasing version order; own state untouched by deliveries; non-trivial = at least one truncated delta")
	p := &Profile{Prop: "C13", Oracles: map[string]bool{"C13": true}, TinyPackets: true, MaxSteps: maxSteps(50, 120),
		Weights: map[string]int{"upsert": 14, "delete": 5}}
	vlib.RunSync(t, "C13", func(c *vlib.Case) {
		s := New(c, p)
		n := steps(c, p)
		for i := 0; i < n; i++ {
			s.Step()
		}
		if s.sawTrunc {
			c.NonTrivial()
		}
	})
}

func TestC01Sim(t *testing.T) {
	vlib.SetRule("C01", "TestC01Sim", "simulated cluster histories with upstream connects/disconnects on several nodes, crashes, leaves, liveness evaluations and expiry; oracle after every step, for every node and endpoint: a routing lookup (asked repeatedly, map order varies) finds a server iff the node's routing table lists some other node as active with a positive count for it; non-trivial = some lookup had both a live and a left/unreachable holder of the same endpoint in the table")
	p := &Profile{Prop: "C01", Oracles: map[string]bool{"C01": true}, MaxSteps: maxSteps(70, 150), Lifecycle: true,
		Weights: map[string]int{"addConn": 14, "removeConn": 4, "upsert": 1, "delete": 1, "compact": 1, "crash": 4, "silence": 5, "liveness": 5, "leave": 2, "gossip": 14, "deliver": 18, "deliverAll": 4, "forge": 0}}
	vlib.RunSync(t, "C01", func(c *vlib.Case) {
		s := New(c, p)
		n := steps(c, p)
		for i := 0; i < n; i++ {
			s.Step()
		}
		if s.sawDeadAndLiveHolder {
			c.NonTrivial()
		}
	})
}

func TestC17Observer(t *testing.T) {
	vlib.SetRule("C17", "TestC17Observer", "simulated histories dominated by upserts, deletes (incl. re-creation with empty values) and compactions with thresholds 1-3 on several owners while observers receive lossy, truncated gossip (a fifth of the histories start with the owner with the smallest packet limit (if at most 400 bytes) holding about as many keys as that limit has bytes, or more); then a fair closure; oracle: every observer's live view (non-deleted, non-internal keys and values) of every owner equals the owner's own live state; non-trivial = an effective compaction happened while some observer was behind")
	p := &Profile{Prop: "C17", Oracles: map[string]bool{}, TinyPackets: true, MaxSteps: maxSteps(60, 150),
		Weights: map[string]int{"upsert": 12, "delete": 9, "compact": 8, "leave": 0, "leaveVia": 0, "close": 0, "crash": 0, "sweep": 0, "toExpiry": 0, "silence": 0, "liveness": 0, "partition": 0, "addConn": 1, "removeConn": 1, "drop": 5, "forge": 0}}
	vlib.RunSync(t, "C17", func(c *vlib.Case) {
		s := New(c, p)
		// a fifth of the histories start from a large state: one owner holds more live
		// keys than its packet limit has bytes, so that after a compaction (which
		// re-versions every live key) a caught-up observer is further behind than one
		// packet can even count
		if c.Chance("largeState", 1, 5) {
			owner := s.nodes[0]
			for _, n := range s.nodes {
				if n.maxPacket < owner.maxPacket {
					owner = n
				}
			}
			if owner.maxPacket > 400 {
				owner = nil
			}
			for i, k := 0, 0; owner != nil && (i == 0 || i < k); i++ {
				if i == 0 {
					k = owner.maxPacket - 10 + c.Int("extraKeys", 0, 40)
				}
				owner.n.State.UpsertLocal(fmt.Sprintf("L%03d", i), "v")
			}
			if owner != nil {
				s.snapshotLocal(owner)
				s.afterAction()
				c.Class("large-state")
			}
		}
		n := steps(c, p)
		for i := 0; i < n; i++ {
			s.Step()
		}
		s.Closure()
		missing, _ := c.Header["closure_missing_items"].(int)
		if s.sawCompactAfterDelete && missing > 0 {
			c.NonTrivial()
		}
		for _, owner := range s.nodes {
			want := map[string]string{}
			for _, e := range owner.n.State.LocalNode().Entries {
				if !e.Internal && !e.Deleted {
					want[e.Key] = e.Value
				}
			}
			for _, obs := range s.nodes {
				if obs == owner {
					continue
				}
				view, ok := obs.n.State.Node(owner.id)
				if !ok {
					c.Fatalf("C17: after synchronising, %s does not know %s", obs.id, owner.id)
				}
				got := map[string]string{}
				for _, e := range view.Entries {
					if !e.Internal && !e.Deleted {
						got[e.Key] = e.Value
					}
				}
				if len(got) != len(want) {
					c.Fatalf("C17: after synchronising, %s sees live state %v of %s, the owner has %v", obs.id, got, owner.id, want)
				}
				for k, v := range want {
					if gv, ok := got[k]; !ok || gv != v {
						c.Fatalf("C17: after synchronising, %s sees %q=%q (present=%v) of %s, the owner has %q", obs.id, k, gv, ok, owner.id, v)
					}
				}
			}
		}
	})
}

// exchange runs one full push-pull exchange a -> b with every packet delivered in order.
func exchange(s *Sim, a, b *Node) {
	s.begin("gossip", nil)
	if err := a.n.GossipTo(gossipMeta(b)); err != nil {
		s.c.Fatalf("%s: gossip %s->%s failed: %v", s.p.Prop, a.id, b.id, err)
	}
	for guard := 0; len(s.q) > 0 && guard < 50; guard++ {
		s.deliverIdx(0)
		s.checkAll()
	}
}

// TestC02Relay: the observer learns about two writers only through a relay, in
// truncated multi-node deltas with entries of mixed sizes.
func TestC02Relay(t *testing.T) {
	vlib.SetRule("C02", "TestC02Relay", "directed relay generator: writers A and B publish bursts of 1-12 entries of mixed sizes (short and up to 72-byte values), deletions and compactions, and once in 150 writer-rounds a burst of 250-330 entries (more pending entries of one node than any delta carries); relay R synchronises fully with both; observer O (small packet limit) talks to R only, a few exchanges at a time, so that it learns both writers from truncated multi-node deltas; same oracle as TestC02 after every delivery; non-trivial = some delta to O was truncated")
	p := &Profile{Prop: "C02", Oracles: map[string]bool{"C02": true}, TinyPackets: true, LongVals: 5}
	vlib.RunSync(t, "C02", func(c *vlib.Case) {
		s := NewN(c, p, 4)
		a, b, r, o := s.nodes[0], s.nodes[1], s.nodes[2], s.nodes[3]
		for round, rounds := 0, c.Int("rounds", 1, 6); round < rounds; round++ {
			for _, w := range []*Node{a, b} {
				// now and then a writer publishes several hundred entries between two
				// exchanges (an agent with many endpoints connecting, a long partition):
				// more pending entries of one node than any one delta can carry
				if c.Chance("bigBurst", 1, 150) {
					n := c.Int("bigBurstKeys", 250, 330)
					for i := 0; i < n; i++ {
						w.n.State.UpsertLocal(fmt.Sprintf("big%03d", i), fmt.Sprintf("r%d", round))
						s.snapshotLocal(w)
					}
					c.Class("big-burst")
					c.Stepf("%s writes a burst of %d entries", w.id, n)
				}
				for i, k := 0, c.Int("writes", 0, 12); i < k; i++ {
					switch c.Weighted("op", []string{"upsert", "delete", "compact"}, []int{8, 2, 1}) {
					case "upsert":
						w.n.State.UpsertLocal(s.drawKey()+c.OneOf("suffix", "", "1", "2", "3", "4", "5"), s.drawVal())
					case "delete":
						w.n.State.DeleteLocal(s.drawKey() + c.OneOf("suffix", "", "1", "2", "3", "4", "5"))
					case "compact":
						w.n.State.CompactLocal(c.Int("threshold", 1, 3))
					}
					s.snapshotLocal(w)
				}
			}
			c.Stepf("round %d: writers wrote; relay synchronises", round)
			// the relay catches up with both writers (several exchanges: its packets truncate too)
			for i := 0; i < 6; i++ {
				exchange(s, r, a)
				exchange(s, r, b)
			}
			// the observer talks to the relay only
			for i, k := 0, c.Int("observerExchanges", 1, 4); i < k; i++ {
				if c.Bool("observerInitiates") {
					exchange(s, o, r)
				} else {
					exchange(s, r, o)
				}
			}
		}
		if s.sawTrunc {
			c.NonTrivial()
		}
	})
}

// TestC11Return: "... is forgotten after the expiry period and stays forgotten
// unless it really returns". A node leaves (or crashes), every survivor forgets
// it while the survivors keep gossiping among themselves, and then a new
// incarnation with the same id and address and an empty state joins.
const returnRule = "directed lifecycle generator on 2-4 real nodes in virtual time: warm-up writes and full exchanges; one node leaves gracefully (notifying a drawn subset of its peers) or crashes; after a first silence of 2-45 s the survivors keep exchanging every 2 virtual seconds, evaluate liveness (before or after gossiping) and sweep until all of them have forgotten it; once one survivor knows of the leave, all survivors that still list the node see it as left within 4 rounds (a crash whose victim is re-introduced by finding F2 ends the case there); a new incarnation with the same id and an empty state writes, joins through a drawn survivor, and liveness evaluations, short silences, writes and exchanges are interleaved; oracle after every atomic action: I1-I6 incl. 'a peer learned recently and not heard from since is not unreachable' (nothing about the earlier incarnation may survive its expiry), and finally every survivor sees the returned node as live in gossip and as active in the routing table; non-trivial = the node returned"

func TestC11Return(t *testing.T) {
	vlib.SetRule("C11", "TestC11Return", returnRule)
	runReturn(t, "C11")
}

// TestC12Return claims the same scenario for C12: whatever the failure detector
// knew about an earlier incarnation of a node id is gone once that node has been
// forgotten - arrivals older than the window (here: older than the node itself)
// have no influence on the level of the returned node.
func TestC12Return(t *testing.T) {
	vlib.SetRule("C12", "TestC12Return", "the detector's memory across incarnations of a node id: "+returnRule)
	runReturn(t, "C12")
}

func runReturn(t *testing.T, prop string) {
	p := &Profile{Prop: prop, Oracles: map[string]bool{"C11": true}}
	vlib.RunSync(t, prop, func(c *vlib.Case) {
		N := c.Int("nodes", 2, 4)
		s := NewN(c, p, N)
		all := func(f func(a, b *Node)) {
			for _, a := range s.nodes {
				for _, b := range s.nodes {
					if a != b && !a.crashed && !b.crashed {
						f(a, b)
					}
				}
			}
		}
		write := func(n *Node) {
			s.begin("upsert", n)
			n.n.State.UpsertLocal(s.drawKey(), s.drawVal())
			s.snapshotLocal(n)
			s.afterAction()
		}
		for r, k := 0, c.Int("warmRounds", 1, 3); r < k; r++ {
			for _, n := range s.nodes {
				if c.Bool("warmWrite") {
					write(n)
				}
			}
			all(func(a, b *Node) { exchange(s, a, b) })
			time.Sleep(time.Duration(c.Int("warmGapMs", 50, 1500)) * time.Millisecond)
		}
		x := s.nodes[c.Pick("victim", N)]
		var survivors []*Node
		for _, n := range s.nodes {
			if n != x {
				survivors = append(survivors, n)
			}
		}
		manner := c.OneOf("manner", "leave", "leave", "crash")
		c.Header["nodes"], c.Header["manner"], c.Header["victim"] = N, manner, x.id
		if manner == "leave" {
			c.Stepf("%s: leave", x.id)
			s.begin("leave", x)
			x.n.State.LeaveLocal()
			x.left = true
			s.snapshotLocal(x)
			s.afterAction()
			for _, b := range survivors {
				if c.Bool("notified") {
					s.begin("leaveVia", b)
					s.ctx.sender = x
					c.Stepf("%s: leave notification to %s", x.id, b.id)
					if err := x.n.LeaveVia(b.n); err != nil {
						c.Fatalf("C11: leave stream %s->%s failed: %v", x.id, b.id, err)
					}
					s.afterAction()
				}
			}
		}
		c.Stepf("%s: gone (%s)", x.id, manner)
		x.crashed = true
		// the survivors carry on until all of them have forgotten x
		forgotten := func() bool {
			for _, o := range survivors {
				if _, known := o.n.State.Node(x.id); known {
					return false
				}
			}
			return true
		}
		// (the first silence may be long enough for the un-notified survivors to suspect x
		// before they next gossip with the ones that know it has left)
		gap := c.Dur("firstGap", 2*time.Second, 10*time.Second, 45*time.Second)
		livenessFirst := c.Bool("livenessFirst")
		roundsSinceLeftKnown := -1
		for round := 0; round < 120 && !forgotten(); round++ {
			time.Sleep(gap)
			gap = 2 * time.Second
			evaluate := func() {
				for _, o := range survivors {
					s.doLiveness(o)
					s.afterAction()
					s.doSweep(o)
					s.afterAction()
				}
			}
			if livenessFirst {
				evaluate()
			}
			all(func(a, b *Node) { exchange(s, a, b) })
			if !livenessFirst {
				evaluate()
			}
			// "seen as left by every node that learns of it": once a survivor knows that x
			// left, the survivors it gossips with learn it too
			if manner == "leave" {
				someoneKnows := false
				for _, o := range survivors {
					for _, m := range o.n.State.Nodes() {
						if m.ID == x.id && m.Left {
							someoneKnows = true
						}
					}
				}
				if someoneKnows || roundsSinceLeftKnown >= 0 {
					roundsSinceLeftKnown++
				}
				if roundsSinceLeftKnown >= 4 {
					for _, o := range survivors {
						for _, m := range o.n.State.Nodes() {
							if m.ID == x.id && !m.Left {
								c.Fatalf("C11: %s left and a survivor has known it for %d full rounds of gossip among the survivors, yet %s still lists it without seeing it as left (unreachable=%v)", x.id, roundsSinceLeftKnown, o.id, m.Unreachable)
							}
						}
					}
				}
			}
		}
		if !forgotten() {
			// finding F2 keeps re-introducing a crashed node from the survivors' digests
			c.Class("never-forgotten-by-all(F2)")
			return
		}
		c.NonTrivial()
		nx := s.Restart(x)
		for i, k := 0, c.Int("writesBeforeJoin", 0, 3); i < k; i++ {
			write(nx)
		}
		s.doJoin(nx, survivors[c.Pick("joinVia", len(survivors))])
		nodes := s.nodes
		for i, k := 0, c.Int("steps", 3, 14); i < k; i++ {
			switch c.Weighted("step", []string{"liveness", "exchange", "write", "pause"}, []int{5, 5, 2, 2}) {
			case "liveness":
				time.Sleep(time.Duration(c.Int("gapMs", 0, 300)) * time.Millisecond)
				o := nodes[c.Pick("node", len(nodes))]
				s.doLiveness(o)
				s.afterAction()
			case "exchange":
				a := nodes[c.Pick("from", len(nodes))]
				b := nodes[c.Pick("to", len(nodes))]
				if a != b {
					if _, known := a.n.State.Node(b.id); known {
						exchange(s, a, b)
					}
				}
			case "write":
				write(nodes[c.Pick("writer", len(nodes))])
			case "pause":
				time.Sleep(time.Duration(c.Int("pauseMs", 300, 1500)) * time.Millisecond)
			}
		}
		// settle: everyone talks to everyone, then nobody may doubt the returned node
		for r := 0; r < 3; r++ {
			all(func(a, b *Node) {
				if _, known := a.n.State.Node(b.id); known {
					exchange(s, a, b)
				}
			})
		}
		for _, o := range survivors {
			s.doLiveness(o)
			s.afterAction()
			var meta *gossip.NodeMetadata
			for _, m := range o.n.State.Nodes() {
				if m.ID == nx.id {
					mm := m
					meta = &mm
				}
			}
			if meta == nil {
				c.Fatalf("C11: %s returned and exchanged state with everyone, but %s does not know it", nx.id, o.id)
			}
			if meta.Left || meta.Unreachable {
				c.Fatalf("C11: %s returned as a new incarnation and was heard from just now, but %s treats it as left=%v unreachable=%v", nx.id, o.id, meta.Left, meta.Unreachable)
			}
			if rn, ok := o.cs.Node(nx.id); !ok || rn.Status != cluster.NodeStatusActive {
				c.Fatalf("C11: %s returned, but the routing table of %s lists it as %+v (present=%v)", nx.id, o.id, rn, ok)
			}
		}
	})
}

// TestC17AfterLeave: leave is one of the operations of C17's sequences, and a node
// that has left keeps its map (a server's upstream handlers withdraw their
// endpoints after the departure was announced). Observers that synchronise with
// it afterwards end up with its live state.
func TestC17AfterLeave(t *testing.T) {
	vlib.SetRule("C17", "TestC17AfterLeave", "directed: 2-4 real nodes write and synchronise; one owner leaves and tells a drawn subset of the others; it then keeps upserting, deleting, re-creating keys (empty values included) and compacting, while observers synchronise with it again (full exchanges, packet limits as drawn); oracle: after an observer's exchanges with the owner its view of the owner has the owner's version and exactly the owner's entries; non-trivial = the owner changed its state after an observer had applied its leave marker")
	p := &Profile{Prop: "C17", Oracles: map[string]bool{"C02": true}}
	vlib.RunSync(t, "C17", func(c *vlib.Case) {
		N := c.Int("nodes", 2, 4)
		s := NewN(c, p, N)
		write := func(n *Node) {
			s.begin("upsert", n)
			switch c.Weighted("op", []string{"upsert", "delete", "compact"}, []int{6, 3, 1}) {
			case "upsert":
				k, v := s.drawKey(), s.drawVal()
				c.Stepf("%s: upsert(%q,%q)", n.id, k, v)
				n.n.State.UpsertLocal(k, v)
			case "delete":
				k := s.drawKey()
				c.Stepf("%s: delete(%q)", n.id, k)
				n.n.State.DeleteLocal(k)
			case "compact":
				th := c.Int("threshold", 1, 3)
				c.Stepf("%s: compact(%d)", n.id, th)
				n.n.State.CompactLocal(th)
			}
			s.snapshotLocal(n)
			s.afterAction()
			s.checkAll()
		}
		sync := func(obs, owner *Node) {
			// enough exchanges for the smallest packet limit to carry everything
			for i := 0; i < 12; i++ {
				exchange(s, obs, owner)
			}
		}
		for i, k := 0, c.Int("writesBefore", 1, 10); i < k; i++ {
			write(s.nodes[c.Pick("writer", N)])
		}
		for _, a := range s.nodes {
			for _, b := range s.nodes {
				if a != b {
					sync(a, b)
				}
			}
		}
		owner := s.nodes[c.Pick("owner", N)]
		c.Stepf("%s: leave", owner.id)
		s.begin("leave", owner)
		owner.n.State.LeaveLocal()
		owner.left = true
		s.snapshotLocal(owner)
		s.afterAction()
		told := map[*Node]bool{}
		for _, b := range s.nodes {
			if b != owner && c.Bool("told") {
				s.begin("leaveVia", b)
				s.ctx.sender = owner
				if err := owner.n.LeaveVia(b.n); err != nil {
					c.Fatalf("C17: leave stream %s->%s failed: %v", owner.id, b.id, err)
				}
				s.afterAction()
				told[b] = true
				c.Stepf("%s: leave notification to %s", owner.id, b.id)
			}
		}
		for round, rounds := 0, c.Int("rounds", 1, 3); round < rounds; round++ {
			changed := false
			before := owner.n.State.LocalNode().Version
			for i, k := 0, c.Int("writesAfter", 1, 6); i < k; i++ {
				write(owner)
			}
			if owner.n.State.LocalNode().Version != before {
				changed = true
			}
			for _, obs := range s.nodes {
				if obs == owner || !c.Chance("synchronises", 2, 3) {
					continue
				}
				if changed && told[obs] {
					c.NonTrivial()
				}
				sync(obs, owner)
				want := owner.n.State.LocalNode()
				got, ok := obs.n.State.Node(owner.id)
				if !ok {
					c.Fatalf("C17: %s synchronised with %s but does not know it", obs.id, owner.id)
				}
				if got.Version != want.Version || !reflect.DeepEqual(entriesMap(got), entriesMap(want)) {
					c.Fatalf("C17: %s left and changed its state afterwards; %s synchronised with it (12 full exchanges) and holds version %d, %+v - the owner is at version %d, %+v", owner.id, obs.id, got.Version, got.Entries, want.Version, want.Entries)
				}
				told[obs] = true
			}
		}
	})
}
