// Package fuzz holds the native (coverage-guided) fuzz targets. The semantic
// oracle is inside each target; the engine adds "no panic".
package fuzz

import (
	"bytes"
	"net"
	"reflect"
	"testing"
	"time"

	"github.com/andydunstall/piko/pkg/gossip"
)

type nullConn struct{}

func (nullConn) ReadFrom(p []byte) (int, net.Addr, error)  { select {} }
func (nullConn) WriteTo(p []byte, a net.Addr) (int, error) { return len(p), nil }
func (nullConn) Close() error                              { return nil }
func (nullConn) LocalAddr() net.Addr                       { return nil }
func (nullConn) SetDeadline(time.Time) error               { return nil }
func (nullConn) SetReadDeadline(time.Time) error           { return nil }
func (nullConn) SetWriteDeadline(time.Time) error          { return nil }

func victim() *gossip.VerifNode {
	n := gossip.VerifNewNode("victim", "127.0.0.1:7000", 1400, 100*time.Millisecond, nullConn{}, nil)
	n.State.UpsertLocal("proxy_addr", "10.0.0.1:8000")
	n.State.UpsertLocal("admin_addr", "10.0.0.1:8002")
	n.State.UpsertLocal("endpoint:e1", "2")
	n.State.UpsertLocal("gone", "x")
	n.State.DeleteLocal("gone")
	n.State.ApplyDelta(gossip.VerifDelta{{ID: "peer", Addr: "127.0.0.1:7001", Entries: []gossip.Entry{{Key: "proxy_addr", Value: "p", Version: 1}, {Key: "admin_addr", Value: "a", Version: 2}}}})
	return n
}

var seedDelta = gossip.VerifDelta{
	{ID: "peer", Addr: "127.0.0.1:7001", Entries: []gossip.Entry{{Key: "k", Value: "v", Version: 3}, {Key: "endpoint:e9", Value: "1", Version: 4}, {Key: gossip.VerifCompactKey, Value: "2", Version: 5, Internal: true}}},
	{ID: "victim", Addr: "127.0.0.1:7000", Entries: []gossip.Entry{{Key: gossip.VerifLeftKey, Version: 99, Internal: true}, {Key: "endpoint:e1", Value: "9", Version: 100}}},
	{ID: "other", Addr: "127.0.0.1:7002", Entries: []gossip.Entry{{Key: "proxy_addr", Value: "q", Version: 1}}},
}
var seedDigest = gossip.VerifDigest{{ID: "peer", Addr: "127.0.0.1:7001", Version: 9}, {ID: "victim", Addr: "127.0.0.1:7000", Version: 1 << 40}, {ID: "new", Addr: "127.0.0.1:7003", Version: 1}, {ID: "gone", Addr: "127.0.0.1:7004", Version: 1, Left: true}}

func addSeeds(f *testing.F, stream bool) {
	if stream {
		f.Add(gossip.VerifEncodeJoin("peer", "127.0.0.1:7001", seedDelta, seedDigest))
		f.Add(gossip.VerifEncodeLeave("peer", "127.0.0.1:7001", seedDelta))
		f.Add(gossip.VerifEncodeJoin("victim", "127.0.0.1:7000", seedDelta[1:2], nil))
		f.Add(gossip.VerifEncodeJoin("p\xffer", "127.0.0.1:7001", gossip.VerifDelta{{ID: "q\xfe", Addr: "x"}}, gossip.VerifDigest{{ID: "r\xfd", Addr: "y", Version: 2}}))
		f.Add([]byte{3, 0, 0xdd, 0xff, 0xff, 0xff, 0xff})
		f.Add([]byte{4, 0, 0x82, 0xa7, 'n', 'o', 'd', 'e', '_', 'i', 'd', 0xdb, 0x7f, 0xff, 0xff, 0xf0})
		f.Add([]byte{3, 1})
		f.Add([]byte{9, 0, 1, 2, 3})
		return
	}
	b, _ := gossip.VerifEncodeDelta("peer", "127.0.0.1:7001", seedDelta, 1400)
	f.Add(b)
	b, _ = gossip.VerifEncodeDigest("peer", "127.0.0.1:7001", true, seedDigest, 1400)
	f.Add(b)
	b, _ = gossip.VerifEncodeDigest("peer", "not an address", false, seedDigest, 1400)
	f.Add(b)
	f.Add(gossip.VerifEncodeDeltaRaw("peer", "127.0.0.1:7001", -1, []gossip.VerifRawSection{{ID: "peer", Addr: "a", Count: -1, Entries: seedDelta[0].Entries}}))
	f.Add(gossip.VerifEncodeDeltaRaw("peer", "127.0.0.1:7001", 0, []gossip.VerifRawSection{{ID: "n\xffw", Addr: "a", Count: 1 << 40, Entries: seedDelta[0].Entries[:1]}}))
	f.Add([]byte{2, 0, 0xdd, 0xff, 0xff, 0xff, 0xff})
	f.Add([]byte{1, 0, 0xdf, 0xff, 0xff, 0xff, 0xff})
	f.Add([]byte{2, 0, 0x83, 0xa7, 'n', 'o', 'd', 'e', '_', 'i', 'd', 0xdb, 0xff, 0xff, 0xff, 0xff})
	f.Add([]byte{2})
	f.Add([]byte{})
}

func checkUnchanged(t *testing.T, n *gossip.VerifNode, before *gossip.NodeState, input []byte) {
	after := n.State.LocalNode()
	if !reflect.DeepEqual(before, after) {
		t.Fatalf("C13: input %x changed the node's own published state\nbefore %+v\nafter  %+v", input, before, after)
	}
	for _, m := range n.State.Nodes() {
		if m.ID == "victim" && (m.Left || m.Unreachable || !m.Expiry.IsZero() || m.Addr != "127.0.0.1:7000") {
			t.Fatalf("C13: input %x changed the node's own metadata: %+v", input, m)
		}
	}
}

func FuzzHandlePacket(f *testing.F) {
	addSeeds(f, false)
	f.Fuzz(func(t *testing.T, data []byte) {
		n := victim() // fresh state every iteration
		// a digest naming hostile ids has been received before (state a later packet can hit)
		n.State.ApplyDigest(gossip.VerifDigest{{ID: "n\xffw", Addr: "127.0.0.1:7005", Version: 1}, {ID: "", Addr: "x", Version: 2}})
		before := n.State.LocalNode()
		done := make(chan struct{})
		go func() {
			defer close(done)
			_ = n.HandlePacket(bytes.Clone(data))
		}()
		select {
		case <-done:
		case <-time.After(120 * time.Second):
			t.Fatalf("C13: packet handler did not return within 120 s on %x", data)
		}
		checkUnchanged(t, n, before, data)
	})
}

func FuzzHandleStream(f *testing.F) {
	addSeeds(f, true)
	f.Fuzz(func(t *testing.T, data []byte) {
		n := victim()
		before := n.State.LocalNode()
		done := make(chan struct{})
		go func() {
			defer close(done)
			_, _ = n.HandleStreamBytes(bytes.Clone(data))
		}()
		select {
		case <-done:
		case <-time.After(120 * time.Second):
			t.Fatalf("C13: stream handler did not return within 120 s on %x", data)
		}
		checkUnchanged(t, n, before, data)
	})
}

// FuzzDeltaRoundTrip: whatever decodes must re-encode (at unlimited size) to
// something that decodes to the same value (the decoder and encoder agree).
func FuzzDeltaRoundTrip(f *testing.F) {
	addSeeds(f, false)
	f.Fuzz(func(t *testing.T, data []byte) {
		id, d, err := gossip.VerifDecodeDelta(data)
		if err != nil {
			return
		}
		total := 0
		for _, de := range d {
			total += len(de.Entries)
		}
		if total > 10000 {
			return
		}
		b, err := gossip.VerifEncodeDelta(id, "a", d, 1<<30)
		if err != nil {
			t.Fatalf("C13: a decodable delta does not re-encode: %v", err)
		}
		id2, d2, err := gossip.VerifDecodeDelta(b)
		if err != nil || id2 != id || !reflect.DeepEqual(normalise(d), normalise(d2)) {
			t.Fatalf("C13: decode(encode(decode(x))) differs: err=%v\n%+v\n%+v", err, d, d2)
		}
	})
}

func normalise(d gossip.VerifDelta) gossip.VerifDelta {
	out := make(gossip.VerifDelta, len(d))
	for i, de := range d {
		out[i] = de
		if len(de.Entries) == 0 {
			out[i].Entries = nil
		}
	}
	return out
}
