package fuzz

import (
	"context"
	"crypto"
	"crypto/ecdsa"
	"crypto/elliptic"
	"crypto/hmac"
	"crypto/rand"
	"crypto/rsa"
	"crypto/sha256"
	"crypto/sha512"
	"crypto/x509"
	"encoding/base64"
	"encoding/json"
	"encoding/pem"
	"hash"
	"math/big"
	"net/http"
	"net/http/httptest"
	"strings"
	"sync"
	"testing"
	"time"

	"github.com/gin-gonic/gin"
	"github.com/golang-jwt/jwt/v5"

	"github.com/andydunstall/piko/pkg/auth"
	"github.com/andydunstall/piko/pkg/log"
	"github.com/andydunstall/piko/pkg/middleware"
)

// C09 (differential): whatever Authorization value the middleware lets through
// must verify under an independent implementation written with the standard
// library only.

type authRig struct {
	hmac   []byte
	rsa    *rsa.PrivateKey
	ec     *ecdsa.PrivateKey
	engine *gin.Engine
}

var (
	rigOnce sync.Once
	rig     *authRig
)

func pubPEM(pub any) string {
	b, _ := x509.MarshalPKIXPublicKey(pub)
	return string(pem.EncodeToMemory(&pem.Block{Type: "PUBLIC KEY", Bytes: b}))
}

func getRig() *authRig {
	rigOnce.Do(func() {
		r := &authRig{hmac: []byte("fuzz-hmac-secret-0123456789abcdef")}
		r.rsa, _ = rsa.GenerateKey(rand.Reader, 2048)
		r.ec, _ = ecdsa.GenerateKey(elliptic.P256(), rand.Reader)
		conf := auth.Config{HMACSecretKey: string(r.hmac), RSAPublicKey: pubPEM(&r.rsa.PublicKey), ECDSAPublicKey: pubPEM(&r.ec.PublicKey)}
		loaded, err := conf.Load(context.Background())
		if err != nil {
			panic(err)
		}
		v := auth.NewMultiTenantVerifier(auth.NewJWTVerifier(loaded), nil)
		gin.SetMode(gin.ReleaseMode)
		e := gin.New()
		e.Use(middleware.NewAuth(v, log.NewNopLogger()).Verify)
		e.NoRoute(func(c *gin.Context) { c.Status(http.StatusOK) })
		r.engine = e
		rig = r
	})
	return rig
}

func hashFor(alg string) (crypto.Hash, func() hash.Hash) {
	switch alg[2:] {
	case "256":
		return crypto.SHA256, sha256.New
	case "384":
		return crypto.SHA384, sha512.New384
	case "512":
		return crypto.SHA512, sha512.New
	}
	return 0, nil
}

// independentlyValid re-implements the acceptance rule of the statement.
func independentlyValid(r *authRig, headerValue string, now time.Time) bool {
	scheme, tok, ok := strings.Cut(headerValue, " ")
	if !ok || scheme != "Bearer" {
		return false
	}
	parts := strings.Split(tok, ".")
	if len(parts) != 3 {
		return false
	}
	hb, err := base64.RawURLEncoding.DecodeString(parts[0])
	if err != nil {
		return false
	}
	var hdr struct {
		Alg string `json:"alg"`
	}
	if json.Unmarshal(hb, &hdr) != nil || len(hdr.Alg) != 5 {
		return false
	}
	sig, err := base64.RawURLEncoding.DecodeString(parts[2])
	if err != nil {
		return false
	}
	input := []byte(parts[0] + "." + parts[1])
	h, newHash := hashFor(hdr.Alg)
	if newHash == nil {
		return false
	}
	switch hdr.Alg[:2] {
	case "HS":
		m := hmac.New(newHash, r.hmac)
		m.Write(input)
		if !hmac.Equal(m.Sum(nil), sig) {
			return false
		}
	case "RS":
		d := newHash()
		d.Write(input)
		if rsa.VerifyPKCS1v15(&r.rsa.PublicKey, h, d.Sum(nil), sig) != nil {
			return false
		}
	case "ES":
		if hdr.Alg != "ES256" || len(sig) != 64 {
			return false // the configured EC key is P-256
		}
		d := sha256.Sum256(input)
		if !ecdsa.Verify(&r.ec.PublicKey, d[:], new(big.Int).SetBytes(sig[:32]), new(big.Int).SetBytes(sig[32:])) {
			return false
		}
	default:
		return false
	}
	pb, err := base64.RawURLEncoding.DecodeString(parts[1])
	if err != nil {
		return false
	}
	var claims map[string]any
	if json.Unmarshal(pb, &claims) != nil {
		return false
	}
	num := func(k string) (float64, bool) {
		v, ok := claims[k]
		if !ok {
			return 0, false
		}
		f, ok := v.(float64)
		return f, ok
	}
	if exp, ok := num("exp"); ok && float64(now.Unix()) >= exp {
		return false
	}
	if nbf, ok := num("nbf"); ok && float64(now.Unix()) < nbf {
		return false
	}
	return true
}

func FuzzAuthHeader(f *testing.F) {
	r := getRig()
	mk := func(m jwt.SigningMethod, key any, claims jwt.MapClaims) string {
		s, err := jwt.NewWithClaims(m, claims).SignedString(key)
		if err != nil {
			panic(err)
		}
		return s
	}
	good := jwt.MapClaims{"exp": time.Now().Add(24 * time.Hour).Unix()}
	f.Add("Bearer "+mk(jwt.SigningMethodHS256, r.hmac, good), "")
	f.Add("Bearer "+mk(jwt.SigningMethodHS512, r.hmac, good), "")
	f.Add("Bearer "+mk(jwt.SigningMethodRS256, r.rsa, good), "")
	f.Add("Bearer "+mk(jwt.SigningMethodRS384, r.rsa, good), "")
	f.Add("Bearer "+mk(jwt.SigningMethodES256, r.ec, good), "")
	f.Add("Bearer "+mk(jwt.SigningMethodHS256, []byte(pubPEM(&r.rsa.PublicKey)), good), "")
	f.Add("Bearer "+mk(jwt.SigningMethodHS256, []byte{}, good), "")
	f.Add("Bearer "+mk(jwt.SigningMethodHS256, r.hmac, jwt.MapClaims{"exp": time.Now().Add(-time.Hour).Unix()}), "")
	none, _ := jwt.NewWithClaims(jwt.SigningMethodNone, good).SignedString(jwt.UnsafeAllowNoneSignatureType)
	f.Add("Bearer "+none, "")
	f.Add("Basic dXNlcjpwYXNz", "Bearer "+mk(jwt.SigningMethodHS256, r.hmac, good))
	f.Add("", "Bearer "+mk(jwt.SigningMethodHS256, []byte("wrong"), good))
	f.Add("Bearer a.b.c", "")
	f.Add("bearer "+mk(jwt.SigningMethodHS256, r.hmac, good), "")
	f.Fuzz(func(t *testing.T, authorization, xPiko string) {
		if strings.ContainsAny(authorization+xPiko, "\r\n\x00") {
			return // not expressible as HTTP header values
		}
		req := httptest.NewRequest("GET", "/any", nil)
		if authorization != "" {
			req.Header.Set("Authorization", authorization)
		}
		if xPiko != "" {
			req.Header.Set("x-piko-authorization", xPiko)
		}
		w := httptest.NewRecorder()
		now := time.Now()
		r.engine.ServeHTTP(w, req)
		if w.Code == http.StatusUnauthorized {
			return
		}
		effective := xPiko
		if effective == "" {
			effective = authorization
		}
		// tokens expiring within the run's own duration are not decidable
		if !independentlyValid(r, effective, now) && !independentlyValid(r, effective, now.Add(-2*time.Second)) {
			t.Fatalf("C09: the middleware let a request through (status %d) whose credential does not verify independently: Authorization=%q x-piko-authorization=%q", w.Code, authorization, xPiko)
		}
	})
}
