package sys

import (
	"testing"

	"verif/harness/vlib"
)

func TestMain(m *testing.M) { vlib.Main(m) }
