package sys

import (
	"bufio"
	"bytes"
	"context"
	"fmt"
	"io"
	"net"
	"net/http"
	"sort"
	"strings"
	"testing"
	"time"

	"github.com/andydunstall/piko/pkg/log"
	"github.com/andydunstall/piko/server/config"

	"verif/harness/vlib"
)

var c08Segs = []string{"a", "foo", "%2F", "%20x", "%C3%A9", "a.b", "~x", "-_", "x;y", "%25", "A", "0"}
var c08Queries = []string{"", "a=b", "a=b&c=%20d", "q=%2F%3F", "x", "a=1&a=2", "e=%C3%A9", "k=v=w", "filter=%7B%22a%22%3A1%7D&sort=-created&page=2", "redirect=https%3A%2F%2Fexample.com%2Fcb%3Fx%3D1", "a;b=c", "+plus+=+sp+"}
var c08Bodies = []int{0, 1, 1024, 65536, 1 << 20}
var c08Statuses = []int{200, 201, 204, 301, 404, 500, 503}

func pat(n, salt int) []byte {
	b := make([]byte, n)
	for i := range b {
		x := i + salt*7919
		b[i] = byte(x*131 + (x>>8)*31 + (x >> 16))
	}
	return b
}

type c08Resp struct {
	status  int
	header  http.Header
	trailer http.Header
	body    []byte
}

// drawAccessLog draws an access-log configuration: disabled, enabled with no
// lists, or enabled with an allow list or a block list per direction.
func drawAccessLog(c *vlib.Case, who string) log.AccessLogConfig {
	conf := log.AccessLogConfig{Level: "info"}
	switch c.Weighted("accessLog", []string{"disabled", "plain", "lists", "lists-disabled"}, []int{3, 2, 4, 1}) {
	case "disabled":
		conf.Disable = true
		return conf
	case "plain":
		return conf
	case "lists-disabled":
		conf.Disable = true
	}
	names := []string{"authorization", "cookie", "x-t-a", "X-T-B", "content-type", "x-r-a", "Set-Cookie", "x-piko-endpoint", "x-piko-forward", "X-Tr-A", "user-agent", "host", "location"}
	pick := func() []string {
		var o []string
		for i, k := 0, c.Int("listLen", 1, 4); i < k; i++ {
			o = append(o, names[c.Pick("listName", len(names))])
		}
		return o
	}
	switch c.Pick("requestList", 3) {
	case 1:
		conf.RequestHeaders.AllowList = pick()
	case 2:
		conf.RequestHeaders.BlockList = pick()
	}
	switch c.Pick("responseList", 3) {
	case 1:
		conf.ResponseHeaders.AllowList = pick()
	case 2:
		conf.ResponseHeaders.BlockList = pick()
	}
	c.Stepf("access log of %s: disable=%v request allow=%v block=%v response allow=%v block=%v", who, conf.Disable, conf.RequestHeaders.AllowList, conf.RequestHeaders.BlockList, conf.ResponseHeaders.AllowList, conf.ResponseHeaders.BlockList)
	c.Class("access-log-header-lists")
	return conf
}

func sortedCopy(v []string) []string {
	o := append([]string(nil), v...)
	sort.Strings(o)
	return o
}

func TestC08Transparency(t *testing.T) {
	vlib.SetRule("C08", "TestC08Transparency", "generated requests (7 methods, 0-4 path segments incl. percent-escapes, double and trailing slashes, raw queries, 0-6 end-to-end headers with repeated values / Cookie / Authorization / client X-Forwarded-For / Accept-Encoding, Host with and without port, bodies of 0 B-1 MiB with Content-Length or chunked) and generated response shapes (7 statuses, repeated response headers, bodies 0 B-1 MiB, 0-2 response trailers), a drawn access-log configuration per node and for the agent (disabled, plain, header allow/block lists per direction) through a real 2-node cluster, entering at the upstream's node or the other one, upstream = Go SDK http.Serve or the agent reverse proxy in front of a local server; oracle: the upstream recorded exactly the method, request-URI, Host, body and every sent header, the client received exactly the drawn status, headers, body and trailers; non-trivial = forwarded path with an escaped segment or a body >= 64 KiB")
	vlib.Run(t, "C08", func(c *vlib.Case) {
		// half of the clusters protect the proxy port: the client's piko token then
		// travels in Authorization or in x-piko-authorization (leaving Authorization to the application)
		withAuth := c.Bool("proxyAuth")
		keys := TestKeys()
		// the access log is a documented configuration: which headers it records
		// (allow list / block list per direction, or nothing at all) must not change
		// what travels through the proxy
		serverLog := []log.AccessLogConfig{drawAccessLog(c, "n0"), drawAccessLog(c, "n1")}
		agentLog := drawAccessLog(c, "agent")
		cl, err := StartCluster(2, false, func(i int, conf *config.Config) {
			conf.Proxy.Timeout = 20 * time.Second
			conf.Proxy.AccessLog = serverLog[i]
			if withAuth {
				conf.Proxy.Auth.HMACSecretKey = string(keys.HMAC)
			}
		})
		if err != nil {
			c.Harnessf("start cluster: %v", err)
		}
		defer cl.Stop()
		c.Header["proxy_auth"] = withAuth
		kind := c.OneOf("kind", "sdk-http", "agent-http")
		var want c08Resp
		handler := func(u *Up, w http.ResponseWriter, r *http.Request, rec *Recorded) {
			for k, vs := range want.header {
				for _, v := range vs {
					w.Header().Add(k, v)
				}
			}
			for k := range want.trailer {
				w.Header().Add("Trailer", k)
			}
			w.WriteHeader(want.status)
			_, _ = w.Write(want.body)
			for k, vs := range want.trailer {
				w.Header()[k] = vs
			}
		}
		// 1-3 sibling upstreams of the endpoint; siblings come and go between requests
		var ups []*Up
		connect := func() {
			u, err := ConnectUpstream(context.Background(), cl.Nodes[0], fmt.Sprintf("u%d", len(ups)), "e1", kind, UpstreamOpts{AccessLog: &agentLog})
			if err != nil {
				c.Harnessf("connect: %v", err)
			}
			u.Handler = handler
			ups = append(ups, u)
		}
		defer func() {
			for _, u := range ups {
				if u.DisconnectEnd.IsZero() {
					u.Disconnect()
				}
			}
		}()
		for i, k := 0, c.Int("siblings", 1, 3); i < k; i++ {
			connect()
		}
		openCount := func() int {
			k := 0
			for _, u := range ups {
				if u.DisconnectEnd.IsZero() {
					k++
				}
			}
			return k
		}
		propagated := func() bool {
			want := openCount()
			if cl.Nodes[0].Srv.ClusterState().LocalEndpointListeners("e1") != want {
				return false
			}
			n, ok := cl.Nodes[1].Srv.ClusterState().Node("n0")
			return ok && n.Status == "active" && n.Endpoints["e1"] == want
		}
		if !Eventually(Deadline(), propagated) {
			Missf(c, "C08: endpoint did not propagate to the second node")
		}
		seenTotal := func() int {
			k := 0
			for _, u := range ups {
				u.mu.Lock()
				k += len(u.Seen)
				u.mu.Unlock()
			}
			return k
		}
		c.Header["upstream_kind"] = kind
		for q, nq := 0, c.Int("requests", 1, 6); q < nq; q++ {
			if q > 0 && c.Chance("siblingChange", 1, 3) {
				if openCount() > 1 && c.Bool("siblingLeaves") {
					var open []*Up
					for _, u := range ups {
						if u.DisconnectEnd.IsZero() {
							open = append(open, u)
						}
					}
					u := open[c.Pick("leaver", len(open))]
					c.Stepf("sibling %s disconnects", u.ID)
					u.Disconnect()
				} else if openCount() < 3 {
					c.Stepf("a sibling connects")
					connect()
				}
				if !Eventually(Deadline(), propagated) {
					Missf(c, "C08: registration change did not settle")
				}
				c.Class("sibling-change-between-requests")
			}
			entry := cl.Nodes[c.Pick("entry", 2)]
			method := c.OneOf("method", "GET", "HEAD", "POST", "PUT", "PATCH", "DELETE", "OPTIONS")
			path := ""
			escaped := false
			for i, k := 0, c.Int("segments", 0, 4); i < k; i++ {
				seg := c08Segs[c.Pick("seg", len(c08Segs))]
				if strings.Contains(seg, "%") {
					escaped = true
				}
				path += "/" + seg
				if c.Chance("doubleSlash", 1, 12) {
					path += "/"
				}
			}
			if path == "" || c.Chance("trailingSlash", 1, 5) {
				path += "/"
			}
			query := c08Queries[c.Pick("query", len(c08Queries))]
			uri := path
			if query != "" {
				uri += "?" + query
			}
			bodyN := 0
			if method == "POST" || method == "PUT" || method == "PATCH" || method == "DELETE" {
				bodyN = c08Bodies[c.Pick("body", len(c08Bodies))]
			}
			body := pat(bodyN, q)
			chunked := bodyN > 0 && c.Chance("chunked", 1, 3)
			var rdr io.Reader
			if bodyN > 0 {
				rdr = bytes.NewReader(body)
				if chunked {
					rdr = io.MultiReader(bytes.NewReader(body)) // unknown length -> chunked
				}
			}
			req, err := http.NewRequest(method, "http://"+entry.ProxyAddr()+uri, rdr)
			if err != nil {
				c.Harnessf("bad generated request %q: %v", uri, err)
			}
			req.Host = "e1.piko.test"
			if c.Bool("hostPort") {
				req.Host += ":8000"
			}
			sent := http.Header{}
			sent.Set("User-Agent", "verif-c08")
			for i, k := 0, c.Int("headers", 0, 6); i < k; i++ {
				switch c.Pick("hdr", 8) {
				case 0:
					sent.Add("X-T-A", c.OneOf("v", "v1", "with space", "üñï", ""))
				case 1:
					sent.Add("X-T-B", "one")
					sent.Add("X-T-B", "two")
				case 2:
					sent.Set("Cookie", "a=b; c=d")
				case 3:
					sent.Set("Accept", "text/html, */*;q=0.1")
				case 4:
					sent.Set("Authorization", "Basic dXNlcjpwYXNz")
				case 5:
					sent.Set("X-Forwarded-For", "203.0.113.7")
				case 6:
					sent.Set("Accept-Encoding", c.OneOf("ae", "gzip", "identity", "br"))
				case 7:
					sent.Set("X-T-"+c.OneOf("name", "Long-Header-Name-0123456789", "c", "Case"), strings.Repeat("z", c.Int("vlen", 0, 300)))
				}
			}
			if withAuth {
				tok := "Bearer " + MintHS(keys.HMAC, nil, time.Time{})
				if sent.Get("Authorization") != "" || c.Bool("tokenInXPikoAuthorization") {
					// the application's own Authorization header stays; piko's token goes in its own header
					req.Header.Set("x-piko-authorization", tok)
					c.Class("token-in-x-piko-authorization")
				} else {
					sent.Set("Authorization", tok)
				}
			}
			for k, vs := range sent {
				req.Header[k] = append([]string(nil), vs...)
			}
			// response shape
			want = c08Resp{status: c08Statuses[c.Pick("status", len(c08Statuses))], header: http.Header{}}
			respN := c08Bodies[c.Pick("respBody", len(c08Bodies))]
			if want.status == 204 || method == "HEAD" {
				respN = 0
			}
			want.body = pat(respN, q+100)
			for i, k := 0, c.Int("respHeaders", 0, 4); i < k; i++ {
				switch c.Pick("rhdr", 4) {
				case 0:
					want.header.Add("X-R-A", c.OneOf("rv", "r1", "r with space", ""))
				case 1:
					want.header.Add("X-R-B", "one")
					want.header.Add("X-R-B", "two")
				case 2:
					want.header.Set("Set-Cookie", "s=1; Path=/")
				case 3:
					want.header.Set("Location", "/else/where?x=1")
				}
			}
			want.header.Set("Content-Type", "application/x-verif")
			// trailers need a body to follow (chunked encoding)
			if respN > 0 && c.Chance("trailers", 1, 3) {
				want.trailer = http.Header{}
				want.trailer.Set("X-Tr-A", c.OneOf("trv", "t1", "sum=abc", ""))
				if c.Bool("twoTrailers") {
					want.trailer["X-Tr-B"] = []string{"one", "two"}
				}
				c.Class("response-trailers")
			}
			c.Stepf("%s %s via %s host=%s body=%d chunked=%v headers=%v -> want %d respBody=%d respHeaders=%v trailers=%v", method, uri, entry.ID, req.Host, bodyN, chunked, sent, want.status, respN, want.header, want.trailer)
			forwardedPath := entry != cl.Nodes[0]
			if forwardedPath && (escaped || bodyN >= 65536 || respN >= 65536) {
				c.NonTrivial()
			}
			before := seenTotal()
			res := Do(req)
			if res.Err == nil && res.Status == 502 && seenTotal() == before {
				// a starved machine can make the entry node suspect its peer for a moment:
				// confirm before reporting (retry once after the routing table is whole again)
				c.Class("timing-retry")
				Eventually(Deadline(), func() bool {
					n, ok := cl.Nodes[1].Srv.ClusterState().Node("n0")
					return ok && n.Status == "active" && n.Endpoints["e1"] == 1
				})
				req2 := req.Clone(context.Background())
				if bodyN > 0 {
					req2.Body = io.NopCloser(bytes.NewReader(body))
					if chunked {
						req2.ContentLength = -1
					}
				}
				res = Do(req2)
			}
			if res.Err != nil {
				c.Fatalf("C08: %s %s via %s failed: %v", method, uri, entry.ID, res.Err)
			}
			nSeen := seenTotal()
			var rec *Recorded
			for _, u := range ups {
				if u.ID == res.Upstream {
					rec = u.LastSeen()
				}
			}
			if rec == nil || nSeen != before+1 {
				c.Fatalf("C08: the upstream saw %d requests for one client request (status at client %d)", nSeen-before, res.Status)
			}
			if rec.Method != method {
				c.Fatalf("C08: method %s reached the upstream as %s", method, rec.Method)
			}
			if rec.RequestURI != uri {
				c.Fatalf("C08: request target %q reached the upstream as %q (entry %s, upstream %s)", uri, rec.RequestURI, entry.ID, kind)
			}
			if rec.Host != req.Host {
				c.Fatalf("C08: Host %q reached the upstream as %q (entry %s, upstream %s)", req.Host, rec.Host, entry.ID, kind)
			}
			if !bytes.Equal(rec.Body, body) {
				c.Fatalf("C08: request body of %d bytes reached the upstream as %d bytes (equal prefix %d)", len(body), len(rec.Body), commonPrefix(rec.Body, body))
			}
			for k, vs := range sent {
				got := rec.Header.Values(k)
				if k == "X-Forwarded-For" {
					if len(got) == 0 || !strings.HasPrefix(strings.Join(got, ", "), vs[0]) {
						c.Fatalf("C08: client X-Forwarded-For %q reached the upstream as %q", vs, got)
					}
					continue
				}
				if !equalStrings(sortedCopy(got), sortedCopy(vs)) {
					c.Fatalf("C08: request header %s: sent %q, upstream received %q (entry %s, upstream %s)", k, vs, got, entry.ID, kind)
				}
			}
			if res.Status != want.status {
				c.Fatalf("C08: upstream answered %d, client received %d", want.status, res.Status)
			}
			for k, vs := range want.header {
				if got := res.Header.Values(k); !equalStrings(sortedCopy(got), sortedCopy(vs)) {
					c.Fatalf("C08: response header %s: upstream sent %q, client received %q", k, vs, got)
				}
			}
			for k, vs := range want.trailer {
				if got := res.Trailer.Values(k); !equalStrings(sortedCopy(got), sortedCopy(vs)) {
					c.Fatalf("C08: response trailer %s: upstream sent %q, client received %q (all trailers at the client: %v)", k, vs, got, res.Trailer)
				}
			}
			if !bytes.Equal(res.Body, want.body) {
				c.Fatalf("C08: response body of %d bytes reached the client as %d bytes (equal prefix %d)", len(want.body), len(res.Body), commonPrefix(res.Body, want.body))
			}
		}
	})
}

func commonPrefix(a, b []byte) int {
	n := 0
	for n < len(a) && n < len(b) && a[n] == b[n] {
		n++
	}
	return n
}

func equalStrings(a, b []string) bool {
	if len(a) != len(b) {
		return false
	}
	for i := range a {
		if a[i] != b[i] {
			return false
		}
	}
	return true
}

// rawUpgrade performs an HTTP/1.1 Upgrade handshake by hand so that the case of
// the Upgrade token is under the generator's control.
func rawUpgrade(addr, host, token string) (net.Conn, *bufio.Reader, int, error) {
	return rawUpgradePath(addr, host, "/ws", token, "Upgrade")
}

// rawUpgradePath is rawUpgrade with the request path and the Connection header under control.
func rawUpgradePath(addr, host, path, token, connection string) (net.Conn, *bufio.Reader, int, error) {
	c, err := net.DialTimeout("tcp", addr, 5*time.Second)
	if err != nil {
		return nil, nil, 0, err
	}
	_ = c.SetDeadline(time.Now().Add(20 * time.Second))
	fmt.Fprintf(c, "GET %s HTTP/1.1\r\nHost: %s\r\nUpgrade: %s\r\nConnection: %s\r\nSec-WebSocket-Key: dGhlIHNhbXBsZSBub25jZQ==\r\nSec-WebSocket-Version: 13\r\n\r\n", path, host, token, connection)
	br := bufio.NewReader(c)
	resp, err := http.ReadResponse(br, &http.Request{Method: "GET"})
	if err != nil {
		c.Close()
		return nil, nil, 0, err
	}
	if resp.StatusCode != 101 {
		_, _ = io.Copy(io.Discard, resp.Body)
		c.Close()
		return nil, nil, resp.StatusCode, nil
	}
	return c, br, 101, nil
}

func TestC08Failures(t *testing.T) {
	vlib.SetRule("C08", "TestC08Failures", "failure matrix on a real 2-node cluster with a drawn proxy timeout of 150-400 ms, local and forwarded paths, Go SDK and agent upstreams: no endpoint determinable (IP / dot-less Host, no header) -> 400; endpoint without upstream -> 502; upstream's node killed just before the request -> 502; upstream closes the stream without answering -> 502; upstream aborts in the middle of a response body (with or without Content-Length) -> the client sees a failed transfer, never a complete well-formed response of the fragment; upstream slower than the timeout -> 504 not earlier than the timeout and within the deadline; protocol upgrade with the token spelt websocket / WebSocket / WEBSOCKET and Connection: Upgrade / upgrade / 'keep-alive, Upgrade' held open for longer than the timeout -> still echoing afterwards; never a 2xx, never a hang; every case is non-trivial")
	vlib.Run(t, "C08", func(c *vlib.Case) {
		fail := c.OneOf("failure", "no-endpoint", "no-upstream", "node-killed", "closes-early", "aborts-mid-body", "slow", "upgrade")
		// the short timeout only where the timeout itself is under test; a loaded
		// machine must not turn an immediate 502 into a 504
		timeout := 10 * time.Second
		if fail == "slow" || fail == "upgrade" {
			timeout = time.Duration(c.Int("timeoutMs", 150, 400)) * time.Millisecond
		}
		cl, err := StartCluster(2, false, func(i int, conf *config.Config) { conf.Proxy.Timeout = timeout })
		if err != nil {
			c.Harnessf("start cluster: %v", err)
		}
		defer cl.Stop()
		kind := c.OneOf("kind", "sdk-http", "agent-http")
		up, err := ConnectUpstream(context.Background(), cl.Nodes[0], "u0", "e1", kind, UpstreamOpts{})
		if err != nil {
			c.Harnessf("connect: %v", err)
		}
		defer up.Disconnect()
		if !Eventually(Deadline(), func() bool {
			n, ok := cl.Nodes[1].Srv.ClusterState().Node("n0")
			return ok && n.Endpoints["e1"] == 1
		}) {
			Missf(c, "C08: endpoint did not propagate")
		}
		entry := cl.Nodes[c.Pick("entry", 2)]
		c.Header["failure"], c.Header["timeout_ms"], c.Header["entry"], c.Header["upstream_kind"] = fail, timeout.Milliseconds(), entry.ID, kind
		c.Stepf("failure=%s timeout=%v entry=%s upstream=%s", fail, timeout, entry.ID, kind)
		c.NonTrivial()
		c.Class("failure-" + fail)
		get := func(host string, hdr map[string]string) *HTTPResult {
			req, _ := http.NewRequest("GET", "http://"+entry.ProxyAddr()+"/x", nil)
			req.Host = host
			for k, v := range hdr {
				req.Header.Set(k, v)
			}
			return Do(req)
		}
		expect := func(res *HTTPResult, status int, what string) {
			if res.Err != nil {
				c.Fatalf("C08 %s: no HTTP answer (%v) after %v, want %d", what, res.Err, res.End.Sub(res.Start), status)
			}
			if res.Status != status {
				c.Fatalf("C08 %s: answered %d, want %d", what, res.Status, status)
			}
		}
		switch fail {
		case "no-endpoint":
			host := c.OneOf("host", entry.ProxyAddr(), "localhost", "localhost:8000", "127.0.0.1", "[::1]:8000", "piko")
			expect(get(host, nil), 400, "request without a determinable endpoint (Host "+host+")")
		case "no-upstream":
			res := get(c.OneOf("ep", "e2", "e", "e11", "E1")+".piko.test", nil)
			expect(res, 502, "endpoint without upstreams")
		case "node-killed":
			entry = cl.Nodes[1]
			cl.Nodes[0].Up = false
			cl.Nodes[0].Srv.VerifKill()
			cl.HoldPorts(cl.Nodes[0])
			time.Sleep(time.Duration(c.Int("afterKillMs", 0, 600)) * time.Millisecond)
			res := get("e1.piko.test", nil)
			expect(res, 502, "upstream node killed")
		case "closes-early":
			up.Handler = func(u *Up, w http.ResponseWriter, r *http.Request, rec *Recorded) {
				if hj, ok := w.(http.Hijacker); ok {
					conn, _, err := hj.Hijack()
					if err == nil {
						conn.Close()
					}
				}
			}
			expect(get("e1.piko.test", nil), 502, "upstream closes the stream without answering")
		case "aborts-mid-body":
			// the upstream starts a response of `promised` bytes and dies after `sent`:
			// the client must not be handed the fragment as a complete response
			promised := c.OneOf("promised", "2000", "70000", "300000")
			var nPromised int
			fmt.Sscan(promised, &nPromised)
			sent := c.Int("sentPermille", 1, 900) * nPromised / 1000
			if c.Chance("headOnly", 1, 3) {
				sent = 0 // the response head only
			}
			withLength := c.Bool("contentLength")
			up.Handler = func(u *Up, w http.ResponseWriter, r *http.Request, rec *Recorded) {
				if withLength {
					w.Header().Set("Content-Length", promised)
				}
				w.WriteHeader(200)
				_, _ = w.Write(pat(sent, 7))
				if f, ok := w.(http.Flusher); ok {
					f.Flush()
				}
				time.Sleep(30 * time.Millisecond)
				panic(http.ErrAbortHandler) // net/http aborts the connection without ending the body
			}
			res := get("e1.piko.test", nil)
			c.Stepf("upstream promised %s bytes (Content-Length sent: %v) and aborted after %d -> status=%d body=%d bytes err=%v", promised, withLength, sent, res.Status, len(res.Body), res.Err)
			if res.Err == nil && res.Status >= 200 && res.Status < 300 && len(res.Body) < nPromised {
				c.Fatalf("C08 fabricated success: the upstream aborted after %d of %s bytes (Content-Length sent: %v), yet the client received a complete, well-formed %d response of %d bytes (entry %s, upstream %s)", sent, promised, withLength, res.Status, len(res.Body), entry.ID, kind)
			}
			// whatever became of the transfer, a status line the client saw is the upstream's
			// own (200) or piko's 502 - nothing else
			if res.Status != 0 && res.Status != 200 && res.Status != 502 {
				c.Fatalf("C08: the upstream answered 200 and aborted after %d of %s body bytes (Content-Length sent: %v); the client was shown status %d (transfer error: %v), which is neither the upstream's status nor a gateway error of piko's (entry %s, upstream %s)", sent, promised, withLength, res.Status, res.Err, entry.ID, kind)
			}
		case "slow":
			extra := time.Duration(c.Int("extraMs", 200, 600)) * time.Millisecond
			up.Handler = func(u *Up, w http.ResponseWriter, r *http.Request, rec *Recorded) {
				select {
				case <-time.After(timeout + extra):
				case <-r.Context().Done():
				}
				w.WriteHeader(200)
			}
			res := get("e1.piko.test", nil)
			expect(res, 504, "upstream slower than the timeout")
			if el := res.End.Sub(res.Start); el < timeout-20*time.Millisecond {
				c.Fatalf("C08: 504 after %v, before the configured timeout %v", el, timeout)
			}
		case "upgrade":
			token := c.OneOf("token", "websocket", "WebSocket", "WEBSOCKET", "Websocket")
			hold := timeout + time.Duration(c.Int("holdExtraMs", 200, 500))*time.Millisecond
			up.Handler = func(u *Up, w http.ResponseWriter, r *http.Request, rec *Recorded) {
				hj, ok := w.(http.Hijacker)
				if !ok {
					w.WriteHeader(500)
					return
				}
				conn, brw, err := hj.Hijack()
				if err != nil {
					return
				}
				defer conn.Close()
				fmt.Fprintf(brw, "HTTP/1.1 101 Switching Protocols\r\nUpgrade: %s\r\nConnection: Upgrade\r\n\r\n", r.Header.Get("Upgrade"))
				_ = brw.Flush()
				_, _ = io.Copy(conn, brw)
			}
			// Connection is a token list: browsers send "keep-alive, Upgrade"
			connHdr := c.OneOf("connectionHeader", "Upgrade", "upgrade", "keep-alive, Upgrade", "Upgrade, keep-alive")
			conn, br, status, err := rawUpgradePath(entry.ProxyAddr(), "e1.piko.test", "/ws", token, connHdr)
			if err != nil || status != 101 {
				c.Fatalf("C08: upgrade (%s, Connection: %s) through %s failed: status=%d err=%v", token, connHdr, entry.ID, status, err)
			}
			token = token + " with Connection: " + connHdr
			defer conn.Close()
			echo := func(msg string) error {
				if _, err := conn.Write([]byte(msg)); err != nil {
					return err
				}
				buf := make([]byte, len(msg))
				_ = conn.SetReadDeadline(time.Now().Add(10 * time.Second))
				if _, err := io.ReadFull(br, buf); err != nil {
					return err
				}
				if string(buf) != msg {
					return fmt.Errorf("echo mismatch %q", buf)
				}
				return nil
			}
			if err := echo("hello-1"); err != nil {
				c.Fatalf("C08: upgraded tunnel (%s) does not echo: %v", token, err)
			}
			time.Sleep(hold)
			if err := echo("hello-2"); err != nil {
				c.Fatalf("C08: tunnel upgraded with 'Upgrade: %s' was cut after %v (proxy timeout %v, not to be applied to WebSocket upgrades): %v", token, hold, timeout, err)
			}
		}
	})
}
