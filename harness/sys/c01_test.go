package sys

import (
	"context"
	"fmt"
	"strings"
	"sync"
	"testing"
	"time"

	"verif/harness/vlib"
)

var httpEps = []string{"e0", "e1", "e10", "e1-x", "E1"}
var tcpEps = []string{"t0", "t1", "t10"}

type reqSpec struct {
	Entry    int
	Endpoint string
	Mode     string // host hostport header both tcp
	Decoy    string
	Conn     string // client-supplied Connection header lines ("\n"-separated), header/both modes
}

// hostile Connection headers: piko's own headers named as hop-by-hop options, in
// the first or in a later header line
var c01Conn = []string{"x-piko-endpoint", "close, X-Piko-Endpoint", "keep-alive\nx-piko-endpoint", "keep-alive\nX-Verif-Hop\nx-piko-endpoint, x-piko-forward"}

func drawReq(c *vlib.Case, n int) reqSpec {
	r := reqSpec{Entry: c.Pick("entry", n)}
	if c.Chance("tcp", 1, 4) {
		r.Endpoint, r.Mode = tcpEps[c.Pick("tep", len(tcpEps))], "tcp"
		return r
	}
	r.Endpoint = httpEps[c.Pick("ep", len(httpEps))]
	r.Mode = c.OneOf("mode", "host", "hostport", "header", "both")
	if r.Mode == "both" {
		r.Decoy = httpEps[c.Pick("decoy", len(httpEps))]
	}
	if (r.Mode == "both" || r.Mode == "header") && c.Chance("connectionHeader", 1, 3) {
		r.Conn = c01Conn[c.Pick("conn", len(c01Conn))]
		c.Class("client-connection-header")
	}
	return r
}

type c01World struct {
	c   *vlib.Case
	cl  *TCluster
	mu  sync.Mutex
	ups []*Up // every upstream ever connected
	// upstreams whose connect call is in progress: id -> endpoint (they can serve
	// before the harness has the object in hand)
	connecting map[string]string
}

func (w *c01World) byID(id string) *Up {
	w.mu.Lock()
	defer w.mu.Unlock()
	for _, u := range w.ups {
		if u.ID == id {
			return u
		}
	}
	return nil
}

// validServe checks a stamp against the set of upstreams and the request interval.
func (w *c01World) validServe(endpoint, stampEp, stampUp string, start, end time.Time) string {
	if stampEp != endpoint {
		return fmt.Sprintf("addressed to endpoint %q but served by upstream %q of endpoint %q", endpoint, stampUp, stampEp)
	}
	u := w.byID(stampUp)
	if u == nil {
		w.mu.Lock()
		ep, pending := w.connecting[stampUp]
		w.mu.Unlock()
		if pending {
			if ep != endpoint {
				return fmt.Sprintf("addressed to endpoint %q but served by upstream %s listening on %q", endpoint, stampUp, ep)
			}
			return ""
		}
		if ForeignStamp(stampUp, w.cl.Gen) {
			w.c.Harnessf("a request was answered by upstream %q, which belongs to an earlier cluster of this process (harness leak / port reuse)", stampUp)
		}
		return fmt.Sprintf("served by unknown upstream %q", stampUp)
	}
	if u.Endpoint != endpoint {
		return fmt.Sprintf("addressed to endpoint %q but served by upstream %s listening on %q", endpoint, u.ID, u.Endpoint)
	}
	if u.ConnectStart.After(end) || (!u.DisconnectEnd.IsZero() && u.DisconnectEnd.Before(start)) {
		return fmt.Sprintf("served by upstream %s outside its connected lifetime", u.ID)
	}
	return ""
}

// issue runs one request; settled selects the strict outcome rules.
func (w *c01World) issue(r reqSpec, settled bool, expectServed *bool) (string, bool) {
	node := w.cl.Nodes[r.Entry]
	if r.Mode == "tcp" {
		res := DialTCP(node, r.Endpoint, "", false)
		if res.Err != nil {
			if IsGatewayRefusal(res.Err) {
				if settled && expectServed != nil && *expectServed {
					return fmt.Sprintf("tcp %s via %s refused (%v) although an upstream is connected", r.Endpoint, node.ID, res.Err), false
				}
				return "", false
			}
			if settled {
				return fmt.Sprintf("tcp %s via %s: neither served nor refused with a gateway error: %v", r.Endpoint, node.ID, res.Err), false
			}
			return "", false
		}
		if msg := w.validServe(r.Endpoint, res.Endpoint, res.Upstream, res.Start, res.End); msg != "" {
			return fmt.Sprintf("tcp via %s: %s", node.ID, msg), false
		}
		if settled && expectServed != nil && !*expectServed {
			return fmt.Sprintf("tcp %s via %s served by %s although no upstream is connected", r.Endpoint, node.ID, res.Upstream), false
		}
		return "", true
	}
	var hdr map[string]string
	if r.Conn != "" {
		hdr = map[string]string{"Connection": r.Conn}
	}
	res := Get(node, r.Endpoint, r.Mode, r.Decoy, hdr)
	if res.Err != nil {
		if settled {
			return fmt.Sprintf("http %s (%s) via %s: transport error in a settled cluster: %v", r.Endpoint, r.Mode, node.ID, res.Err), false
		}
		return "", false
	}
	switch res.Status {
	case 200:
		if msg := w.validServe(r.Endpoint, res.Endpoint, res.Upstream, res.Start, res.End); msg != "" {
			return fmt.Sprintf("http (%s, decoy %q) via %s: %s", r.Mode, r.Decoy, node.ID, msg), false
		}
		if settled && expectServed != nil && !*expectServed {
			return fmt.Sprintf("http %s via %s answered 200 by %s although no upstream is connected", r.Endpoint, node.ID, res.Upstream), false
		}
		return "", true
	case 502, 504:
		if res.Upstream != "" {
			return fmt.Sprintf("http %s via %s: gateway error %d carries an upstream stamp %s", r.Endpoint, node.ID, res.Status, res.Upstream), false
		}
		if settled && expectServed != nil && *expectServed {
			return fmt.Sprintf("http %s (%s) via %s answered %d although an upstream is connected and routing has settled", r.Endpoint, r.Mode, node.ID, res.Status), false
		}
		if settled && expectServed != nil && !*expectServed && res.Status != 502 {
			return fmt.Sprintf("http %s via %s answered %d, want 502 when no node has an upstream", r.Endpoint, node.ID, res.Status), false
		}
		return "", false
	default:
		return fmt.Sprintf("http %s (%s) via %s: status %d is neither a delivery nor a gateway error", r.Endpoint, r.Mode, node.ID, res.Status), false
	}
}

// placement returns, per node id, endpoint -> number of connected upstreams.
func (w *c01World) placement() map[string]map[string]int {
	p := map[string]map[string]int{}
	for _, n := range w.cl.Nodes {
		p[n.ID] = map[string]int{}
	}
	w.mu.Lock()
	defer w.mu.Unlock()
	for _, u := range w.ups {
		if u.DisconnectEnd.IsZero() {
			p[u.Node.ID][u.Endpoint]++
		}
	}
	return p
}

func (w *c01World) settled() bool {
	p := w.placement()
	for _, x := range w.cl.Nodes {
		cs := x.Srv.ClusterState()
		for _, y := range w.cl.Nodes {
			var got map[string]int
			if x == y {
				got = cs.LocalNode().Endpoints
			} else {
				n, ok := cs.Node(y.ID)
				if !ok || n.Status != "active" {
					return false
				}
				got = n.Endpoints
			}
			want := p[y.ID]
			if len(got) != len(want) {
				return false
			}
			for e, k := range want {
				if got[e] != k {
					return false
				}
			}
		}
	}
	return true
}

func (w *c01World) waitSettled() {
	if Eventually(Deadline(), w.settled) {
		return
	}
	w.c.Class("timing-retry")
	if Eventually(2*Deadline(), w.settled) {
		return
	}
	Missf(w.c, "C01: routing information did not settle within %v: placement %v; views: %s", 3*Deadline(), w.placement(), w.cl.Views())
}

func TestC01(t *testing.T) {
	vlib.SetRule("C01", "TestC01", "generated scenarios on a real in-process cluster of 1-4 nodes: upstreams of 5 HTTP and 3 TCP endpoint ids (near-miss names) connect through the Go SDK (http.Serve on the piko listener, raw TCP accept) or the agent's reverse/TCP proxy in front of a local server, on any node, and disconnect; requests enter at any node addressed by Host label (with/without port), x-piko-endpoint header, conflicting header+Host, or the TCP route; a churn goroutine keeps issuing generated requests while connects/disconnects run; every upstream stamps its endpoint and id; safety oracle on every response: 200/stream only from an upstream of exactly the addressed endpoint alive during the request, else a gateway error; liveness after settling (every node's routing table equals the placement): every node serves E iff some node has an upstream of E, else 502; non-trivial = upstreams of >= 2 endpoints on >= 2 nodes and a request whose entry node has no local upstream of its endpoint")
	vlib.Run(t, "C01", func(c *vlib.Case) {
		N := c.Int("nodes", 1, 4)
		cl, err := StartCluster(N, false, nil)
		if err != nil {
			c.Harnessf("start cluster: %v", err)
		}
		defer cl.Stop()
		if !cl.WaitMembership(Deadline()) {
			Missf(c, "C01: %d nodes did not form a cluster within %v", N, Deadline())
		}
		w := &c01World{c: c, cl: cl, connecting: map[string]string{}}
		defer func() {
			for _, u := range w.ups {
				if u.DisconnectEnd.IsZero() {
					u.Disconnect()
				}
			}
		}()
		c.Header["nodes"] = N
		// churn requests (safety oracle only)
		var churn []reqSpec
		for i, k := 0, c.Int("churnReqs", 0, 6); i < k; i++ {
			churn = append(churn, drawReq(c, N))
		}
		var churnFail string
		var churnMu sync.Mutex
		runChurn := func(stop chan struct{}, done *sync.WaitGroup) {
			defer done.Done()
			for i := 0; len(churn) > 0; i++ {
				select {
				case <-stop:
					return
				default:
				}
				if msg, _ := w.issue(churn[i%len(churn)], false, nil); msg != "" {
					churnMu.Lock()
					if churnFail == "" {
						churnFail = msg
					}
					churnMu.Unlock()
					return
				}
			}
		}
		remoteReq := false
		settle := func() {
			c.Stepf("settle and check every endpoint from every node")
			w.waitSettled()
			p := w.placement()
			total := map[string]int{}
			nodesWith := map[string]bool{}
			for nid, eps := range p {
				for e, k := range eps {
					total[e] += k
					if k > 0 {
						nodesWith[nid] = true
					}
				}
			}
			for _, entry := range cl.Nodes {
				for _, e := range append(append([]string{}, httpEps...), tcpEps...) {
					expect := total[e] > 0
					mode := "host"
					if len(e) > 0 && e[0] == 't' {
						mode = "tcp"
					} else {
						mode = c.OneOf("mode", "host", "hostport", "header")
					}
					msg, served := w.issue(reqSpec{Entry: entry.Idx, Endpoint: e, Mode: mode}, true, &expect)
					if msg != "" && strings.Contains(msg, "although an upstream is connected") {
						// a starved machine can make a node suspect a healthy peer for a moment: confirm
						c.Class("timing-retry")
						w.waitSettled()
						msg, served = w.issue(reqSpec{Entry: entry.Idx, Endpoint: e, Mode: mode}, true, &expect)
					}
					if msg != "" {
						c.Fatalf("C01 (settled; placement %v): %s", p, msg)
					}
					if served && p[entry.ID][e] == 0 {
						remoteReq = true
					}
				}
			}
			c.Class("settled-sweeps")
			if len(total) >= 2 && len(nodesWith) >= 2 && remoteReq {
				c.NonTrivial()
			}
		}
		// a burst of upstreams with endpoint ids of differing length on one node, so
		// that its advertisement does not fit one gossip packet
		if c.Chance("endpointBurst", 1, 4) {
			node := cl.Nodes[c.Pick("burstNode", N)]
			k := c.Int("burstSize", 25, 60)
			// one of the ids may be very long: its routing entry nearly fills a gossip packet
			longID := 0
			if c.Bool("veryLongEndpointID") {
				longID = c.Int("longIDLength", 1135, 1180)
				c.Class("very-long-endpoint-id")
			}
			var wg sync.WaitGroup
			errs := make(chan error, k)
			var bmu sync.Mutex
			for i := 0; i < k; i++ {
				ep := fmt.Sprintf("burst-%d-%s", i, strings.Repeat("x", (i*37)%90))
				if i == 0 && longID > 0 {
					ep = "burst-0-" + strings.Repeat("x", longID)
				}
				id := fmt.Sprintf("b%d", i)
				wg.Add(1)
				go func() {
					defer wg.Done()
					w.mu.Lock()
					w.connecting[fmt.Sprintf("%s@g%d", id, cl.Gen)] = ep
					w.mu.Unlock()
					ctx, cancel := context.WithTimeout(context.Background(), Deadline())
					defer cancel()
					u, err := ConnectUpstream(ctx, node, id, ep, "sdk-http", UpstreamOpts{})
					if err != nil {
						errs <- err
						return
					}
					bmu.Lock()
					w.mu.Lock()
					w.ups = append(w.ups, u)
					w.mu.Unlock()
					bmu.Unlock()
				}()
			}
			wg.Wait()
			select {
			case err := <-errs:
				c.Fatalf("C01: an upstream of the burst could not connect: %v", err)
			default:
			}
			c.Stepf("burst of %d upstreams with distinct endpoint ids of differing length on %s", k, node.ID)
			c.Class("endpoint-burst")
		}
		steps := c.Int("steps", 1, 20)
		for i := 0; i < steps; i++ {
			kind := c.Weighted("step", []string{"connect", "disconnect", "request", "settle"}, []int{6, 3, 5, 2})
			switch kind {
			case "connect", "disconnect":
				stop := make(chan struct{})
				var stopOnce sync.Once
				halt := func() { stopOnce.Do(func() { close(stop) }) }
				defer halt() // also when the case is aborted in the middle of the step
				var wg sync.WaitGroup
				wg.Add(1)
				go runChurn(stop, &wg)
				if kind == "connect" {
					node := cl.Nodes[c.Pick("node", N)]
					var ep, k string
					if c.Chance("tcpUp", 1, 3) {
						ep, k = tcpEps[c.Pick("tep", len(tcpEps))], c.OneOf("tkind", "sdk-tcp", "agent-tcp")
					} else {
						ep, k = httpEps[c.Pick("ep", len(httpEps))], c.OneOf("hkind", "sdk-http", "agent-http")
					}
					id := fmt.Sprintf("u%d", len(w.ups))
					c.Stepf("connect %s (%s) for %s on %s", id, k, ep, node.ID)
					w.mu.Lock()
					w.connecting[fmt.Sprintf("%s@g%d", id, cl.Gen)] = ep
					w.mu.Unlock()
					ctx, cancel := context.WithTimeout(context.Background(), Deadline())
					u, err := ConnectUpstream(ctx, node, id, ep, k, UpstreamOpts{})
					cancel()
					if err != nil {
						halt()
						wg.Wait()
						c.Fatalf("C01: upstream %s could not connect to %s: %v", id, node.ID, err)
					}
					w.mu.Lock()
					w.ups = append(w.ups, u)
					w.mu.Unlock()
				} else {
					var open []*Up
					for _, u := range w.ups {
						if u.DisconnectEnd.IsZero() {
							open = append(open, u)
						}
					}
					if len(open) > 0 {
						u := open[c.Pick("u", len(open))]
						c.Stepf("disconnect %s", u.ID)
						u.Disconnect()
					}
				}
				time.Sleep(time.Duration(c.Int("churnMs", 0, 30)) * time.Millisecond)
				halt()
				wg.Wait()
				churnMu.Lock()
				f := churnFail
				churnMu.Unlock()
				if f != "" {
					c.Fatalf("C01 (during connects/disconnects): %s", f)
				}
			case "request":
				r := drawReq(c, N)
				c.Stepf("request %+v", r)
				if msg, _ := w.issue(r, false, nil); msg != "" {
					c.Fatalf("C01: %s", msg)
				}
			case "settle":
				settle()
			}
		}
		settle()
		// losing a node: the survivors must still serve every endpoint that a
		// reachable node has an upstream for (and must not be put off by the lost
		// node still being listed, flagged, in their tables)
		if N >= 2 && c.Chance("loseANode", 1, 2) {
			victim := cl.Nodes[c.Pick("victim", N)]
			manner := c.OneOf("manner", "kill", "shutdown")
			c.Stepf("lose %s by %s", victim.ID, manner)
			for _, u := range w.ups {
				if u.Node == victim && u.DisconnectEnd.IsZero() {
					u.MarkGone()
					u.DisconnectEnd = time.Now().Add(time.Hour) // may still serve until the node is gone
				}
			}
			victim.Up = false
			if manner == "kill" {
				victim.Srv.VerifKill()
			} else {
				victim.Srv.Shutdown()
			}
			cl.HoldPorts(victim)
			for _, u := range w.ups {
				if u.Node == victim {
					u.DisconnectEnd = time.Now()
				}
			}
			var survivors []*TNode
			for _, n := range cl.Nodes {
				if n != victim {
					survivors = append(survivors, n)
				}
			}
			flagged := func() bool {
				for _, s := range survivors {
					if n, ok := s.Srv.ClusterState().Node(victim.ID); ok && n.Status == "active" {
						return false
					}
				}
				return true
			}
			if !Eventually(Deadline(), flagged) && !Eventually(2*Deadline(), flagged) {
				Missf(c, "C01: survivors still consider the lost node %s active after %v", victim.ID, 3*Deadline())
			}
			total := map[string]int{}
			for _, u := range w.ups {
				if u.Node != victim && u.DisconnectEnd.IsZero() {
					total[u.Endpoint]++
				}
			}
			deadHolder := false
			for _, u := range w.ups {
				if u.Node == victim && total[u.Endpoint] > 0 {
					deadHolder = true
				}
			}
			if deadHolder {
				c.Class("lost-node-held-an-endpoint-that-a-survivor-also-has")
				c.NonTrivial()
			}
			for round := 0; round < 3; round++ { // map order decides which holder a lookup meets first
				for _, entry := range survivors {
					for _, e := range append(append([]string{}, httpEps...), tcpEps...) {
						expect := total[e] > 0
						mode := "host"
						if e[0] == 't' {
							mode = "tcp"
						}
						msg, _ := w.issue(reqSpec{Entry: entry.Idx, Endpoint: e, Mode: mode}, true, &expect)
						if msg != "" && strings.Contains(msg, "although an upstream is connected") {
							c.Class("timing-retry")
							time.Sleep(2 * time.Second)
							msg, _ = w.issue(reqSpec{Entry: entry.Idx, Endpoint: e, Mode: mode}, true, &expect)
						}
						if msg != "" {
							c.Fatalf("C01 (after losing %s by %s; survivors' upstreams %v): %s", victim.ID, manner, total, msg)
						}
					}
				}
			}
			c.Class("node-loss-sweeps")
		}
		for _, u := range w.ups {
			if e := u.AcceptErr.Load(); e != nil {
				c.Class("upstream-accept-error")
			}
		}
	})
}
