package sys

import (
	"context"
	"fmt"
	"net/http"
	"net/url"
	"strings"
	"testing"
	"time"

	"github.com/andydunstall/piko/client"
	"github.com/andydunstall/piko/pkg/auth"
	"github.com/andydunstall/piko/server/config"

	"verif/harness/vlib"
)

var c10Eps = []string{"e1", "e10", "e1-x", "E1"}

func drawClaims(c *vlib.Case) []string {
	switch c.Pick("claimShape", 6) {
	case 0:
		return nil // any endpoint
	case 1:
		return []string{c10Eps[c.Pick("only", len(c10Eps))]}
	case 2:
		// a list that is not empty but names nothing usable (a token service that
		// templated the list from an unset variable): confined to nothing, not to everything
		c.Class("blank-endpoint-claims")
		return [][]string{{""}, {"", ""}, {" "}, {"", "other"}}[c.Pick("blank", 4)]
	default:
		var out []string
		for _, e := range append(append([]string{}, c10Eps...), "e", "e1.piko", "e1 ") {
			if c.Chance("claim", 1, 3) {
				out = append(out, e)
			}
		}
		if len(out) == 0 {
			out = []string{"other"}
		}
		return out
	}
}

func permitted(claims []string, ep string) bool {
	if len(claims) == 0 {
		return true
	}
	for _, e := range claims {
		if e == ep {
			return true
		}
	}
	return false
}

func TestC10Endpoints(t *testing.T) {
	vlib.SetRule("C10", "TestC10Endpoints", "real 2-node cluster with HMAC auth on the proxy and upstream ports; stamping upstreams of the 4 near-miss endpoints e1/e10/e1-x/E1 on drawn nodes (connected with permitted tokens); tokens with drawn endpoint claim sets (none, one, several incl. near misses, lists of blank entries); the target is named by Host label, x-piko-endpoint header, conflicting header+Host (optionally under a request path that resembles one of piko's own routes and names another endpoint), the TCP route path, or the upstream listen path, entering at either node (so the check also crosses a forward); oracle: accepted iff the endpoint routing uses (header > first Host label; path parameter) is in the claim list or the list is empty, an accepted request is served by an upstream of exactly that endpoint, a refused one is answered 401 and reaches no upstream; non-trivial = conflicting Host/header or a near-miss claim")
	vlib.Run(t, "C10", func(c *vlib.Case) {
		k := TestKeys()
		cl, err := StartCluster(2, false, func(i int, conf *config.Config) {
			conf.Proxy.Auth = auth.Config{HMACSecretKey: string(k.HMAC)}
			conf.Upstream.Auth = auth.Config{HMACSecretKey: string(k.HMAC)}
		})
		if err != nil {
			c.Harnessf("start cluster: %v", err)
		}
		defer cl.Stop()
		if !cl.WaitMembership(Deadline()) {
			Missf(c, "C10: cluster did not form")
		}
		ups := map[string]*Up{}
		anyTok := MintHS(k.HMAC, nil, time.Time{})
		for i, e := range c10Eps {
			kind := "sdk-http"
			u, err := ConnectUpstream(context.Background(), cl.Nodes[c.Pick("upNode", 2)], fmt.Sprintf("u%d", i), e, kind, UpstreamOpts{Token: MintHS(k.HMAC, []string{e}, time.Time{})})
			if err != nil {
				c.Fatalf("C10: upstream with a token permitting exactly %q could not listen on it: %v", e, err)
			}
			defer u.Disconnect()
			ups[e] = u
		}
		tcpUp, err := ConnectUpstream(context.Background(), cl.Nodes[c.Pick("tcpNode", 2)], "ut", "t1", "sdk-tcp", UpstreamOpts{Token: anyTok})
		if err != nil {
			c.Harnessf("connect tcp upstream: %v", err)
		}
		defer tcpUp.Disconnect()
		settled := Eventually(Deadline(), func() bool {
			for _, n := range cl.Nodes {
				for _, e := range append(append([]string{}, c10Eps...), "t1") {
					total := n.Srv.ClusterState().LocalEndpointListeners(e)
					for _, o := range cl.Nodes {
						if o != n {
							if rn, ok := n.Srv.ClusterState().Node(o.ID); ok {
								total += rn.Endpoints[e]
							}
						}
					}
					if total != 1 {
						return false
					}
				}
			}
			return true
		})
		if !settled {
			Missf(c, "C10: endpoints did not propagate")
		}
		served := func() map[string]int64 {
			m := map[string]int64{}
			for e, u := range ups {
				m[e] = u.Served.Load()
			}
			m["t1"] = tcpUp.Served.Load()
			return m
		}
		for q, nq := 0, c.Int("requests", 4, 24); q < nq; q++ {
			claims := drawClaims(c)
			tok := MintHS(k.HMAC, claims, time.Time{})
			entry := cl.Nodes[c.Pick("entry", 2)]
			how := c.Weighted("naming", []string{"host", "header", "both", "tcp", "listen"}, []int{4, 4, 5, 2, 3})
			before := served()
			var routed string
			var status int
			var stamp string
			tenantNamed := false
			switch how {
			case "host", "header", "both":
				target := c10Eps[c.Pick("target", len(c10Eps))]
				decoy := c10Eps[c.Pick("decoy", len(c10Eps))]
				routed = target
				// the request path is the application's business; it may look like one of
				// piko's own routes (naming an endpoint the token does permit) without being one
				path := "/"
				if c.Chance("pikoLookingPath", 1, 4) {
					pe := c10Eps[c.Pick("pathEndpoint", len(c10Eps))]
					if len(claims) > 0 && claims[0] != "" && c.Bool("pathNamesClaimedEndpoint") {
						pe = claims[0]
					}
					path = c.OneOf("pathShape", "/_piko/v1/tcp/%s/x", "/_piko/v1/tcp/%s/x/y", "/_piko/v1/upstream/%s", "/piko/v1/upstream/%s")
					path = fmt.Sprintf(path, pe)
					c.Class("piko-looking-path")
				}
				req, _ := http.NewRequest("GET", "http://"+entry.ProxyAddr()+path, nil)
				switch how {
				case "host":
					req.Host = target + ".piko.test"
				case "header":
					req.Header.Set("x-piko-endpoint", target)
				case "both":
					req.Header.Set("x-piko-endpoint", target)
					req.Host = decoy + ".piko.test"
					if decoy != target {
						c.NonTrivial()
						c.Class("conflicting-host-and-header")
					}
				}
				// headers a hostile client may add: piko's own inter-node marker, hop-by-hop tricks
				switch c.Pick("extraHeader", 8) {
				case 0:
					req.Header.Set("x-piko-forward", "true")
					c.Class("client-sends-forward-marker")
				case 1:
					req.Header.Set("Connection", "x-piko-endpoint")
				case 2:
					req.Header.Set("x-piko-forward", "true")
					req.Header.Set("Connection", "x-piko-forward, x-piko-endpoint")
				case 3:
					// several Connection lines, piko's own header named in a later one
					req.Header["Connection"] = []string{"keep-alive", "x-piko-endpoint"}
					c.Class("several-connection-lines")
				case 4:
					req.Header["Connection"] = []string{"keep-alive", "X-Verif-Hop", "X-Piko-Endpoint, x-piko-forward, x-piko-authorization"}
					c.Class("several-connection-lines")
				}
				// the proxy port has no tenants: a request that names one is refused whatever its token
				namesTenant := c.Chance("namesTenant", 1, 6)
				if namesTenant {
					req.Header.Set("x-piko-tenant-id", c.OneOf("tenantName", "t0", "default", "e1"))
					c.Class("tenant-named-on-proxy-port")
					tenantNamed = true
				}
				if c.Bool("xPikoAuth") {
					req.Header.Set("x-piko-authorization", "Bearer "+tok)
				} else {
					req.Header.Set("Authorization", "Bearer "+tok)
				}
				res := DoWith(KeepAliveClient, req)
				if res.Err != nil {
					c.Fatalf("C10: no answer: %v", res.Err)
				}
				status, stamp = res.Status, res.Endpoint
				c.Stepf("%s target=%s decoy=%s path=%s claims=%q via %s -> %d stamp=%q", how, target, decoy, path, claims, entry.ID, status, stamp)
			case "tcp":
				routed = c.OneOf("tcpTarget", "t1", "t1", "t2", "T1")
				res := DialTCP(entry, routed, tok, false)
				switch {
				case res.Err == nil:
					status, stamp = 200, res.Endpoint
				case strings.Contains(res.Err.Error(), "401"):
					status = 401
				case IsGatewayRefusal(res.Err):
					status = 502
				default:
					c.Fatalf("C10: tcp dial failed oddly: %v", res.Err)
				}
				c.Stepf("tcp target=%s claims=%q via %s -> %d stamp=%q", routed, claims, entry.ID, status, stamp)
			case "listen":
				routed = c.OneOf("listenTarget", "e1", "e10", "L1", "e1-x")
				pu, _ := url.Parse("http://" + entry.UpstreamAddr())
				ctx, cancel := context.WithTimeout(context.Background(), Deadline())
				ln, err := (&client.Upstream{URL: pu, Token: tok}).Listen(ctx, routed)
				cancel()
				if err == nil {
					status = 200
					want := 0
					if u, ok := ups[routed]; ok && u.Node == entry {
						want = 1
					}
					Eventually(Deadline(), func() bool { return entry.Srv.ClusterState().LocalEndpointListeners(routed) == want+1 })
					_ = ln.Shutdown()
					// wait until the extra listener is gone again
					Eventually(Deadline(), func() bool { return entry.Srv.ClusterState().LocalEndpointListeners(routed) == want })
				} else if strings.Contains(err.Error(), "401") {
					status = 401
				} else {
					c.Fatalf("C10: listen failed oddly: %v", err)
				}
				c.Stepf("listen on %s claims=%q at %s -> %d", routed, claims, entry.ID, status)
			}
			for _, e := range claims {
				if e != routed && (strings.HasPrefix(e, routed) || strings.HasPrefix(routed, e) || strings.EqualFold(e, routed)) {
					c.NonTrivial()
					c.Class("near-miss-claim")
				}
			}
			ok := permitted(claims, routed) && !tenantNamed
			after := served()
			if ok {
				if status == 401 {
					c.Fatalf("C10: token with endpoints %q was refused on endpoint %q (%s) although it lists it / lists none", claims, routed, how)
				}
				if how != "listen" && status == 200 && stamp != routed {
					c.Fatalf("C10: request for %q (%s, checked against claims %q) was served by an upstream of %q", routed, how, claims, stamp)
				}
				c.Class("permitted")
			} else {
				if status != 401 {
					c.Fatalf("C10: token with endpoints %q was NOT refused on endpoint %q (%s via %s): status %d, served by %q", claims, routed, how, entry.ID, status, stamp)
				}
				for e, n := range after {
					if n != before[e] {
						c.Fatalf("C10: a refused request (claims %q, target %q, %s) reached the upstream of %q", claims, routed, how, e)
					}
				}
				c.Class("refused")
			}
		}
	})
}

func TestC10Tenants(t *testing.T) {
	vlib.SetRule("C10", "TestC10Tenants", "one real node whose upstream port has 0-3 tenants with distinct HMAC keys and an optional default key (in a sixth of the multi-tenant cases the tenants' keys cannot be loaded: the node either refuses to start or refuses every listener); listeners connect with every pairing of (token signed by the default key / by tenant i's key / by an unknown key, with drawn endpoint claims) and (no tenant header / tenant j / an unknown tenant); oracle: accepted iff no tenants are configured, no tenant is named and the default key signed the token, or the named tenant exists and its key signed the token - and the endpoint is permitted; everything else is refused with 401 and registers nothing; non-trivial = a cross-tenant pairing or the default key's token when tenants exist")
	vlib.Run(t, "C10", func(c *vlib.Case) {
		nT := c.Int("tenants", 0, 3)
		hasDefault := c.Bool("defaultKey") || nT == 0
		tenantKey := func(i int) []byte { return []byte(fmt.Sprintf("tenant-key-%d-0123456789abcdef0123", i)) }
		defKey := []byte("default-key-0123456789abcdef01234567")
		// a tenant table whose keys cannot be loaded (a damaged PEM, a missing JWKS
		// file): the node must not come up serving the default key to everybody
		if nT > 0 && c.Chance("unloadableTenantKeys", 1, 6) {
			c.Class("unloadable-tenant-keys")
			cl, err := StartCluster(1, false, func(i int, conf *config.Config) {
				if hasDefault {
					conf.Upstream.Auth = auth.Config{HMACSecretKey: string(defKey)}
				}
				for j := 0; j < nT; j++ {
					bad := auth.Config{RSAPublicKey: "-----BEGIN PUBLIC KEY-----\nnot a key\n-----END PUBLIC KEY-----"}
					if c.Bool("missingJWKS") {
						bad = auth.Config{}
						bad.JWKS.Endpoint = "file:///nonexistent/verif-jwks.json"
					}
					conf.Upstream.Tenants = append(conf.Upstream.Tenants, config.TenantConfig{ID: fmt.Sprintf("t%d", j), Auth: bad})
				}
			})
			if err != nil {
				c.Stepf("%d tenants with unloadable keys: the node refuses to start (%v)", nT, err)
				c.NonTrivial()
				return
			}
			defer cl.Stop()
			pu, _ := url.Parse("http://" + cl.Nodes[0].UpstreamAddr())
			for _, tenant := range []string{"", "t0"} {
				for _, key := range [][]byte{defKey, {}} {
					ctx, cancel := context.WithTimeout(context.Background(), Deadline())
					ln, err := (&client.Upstream{URL: pu, Token: MintHS(key, nil, time.Time{}), TenantID: tenant}).Listen(ctx, "e1")
					cancel()
					if err == nil {
						_ = ln.Shutdown()
						c.Fatalf("C10: %d tenants are configured (their keys cannot be loaded); the node started anyway and accepted a listener naming tenant %q with a token signed by the %s key", nT, tenant, map[bool]string{true: "default", false: "empty"}[len(key) > 0])
					}
				}
			}
			c.NonTrivial()
			return
		}
		cl, err := StartCluster(1, false, func(i int, conf *config.Config) {
			if hasDefault {
				conf.Upstream.Auth = auth.Config{HMACSecretKey: string(defKey)}
			}
			for j := 0; j < nT; j++ {
				conf.Upstream.Tenants = append(conf.Upstream.Tenants, config.TenantConfig{ID: fmt.Sprintf("t%d", j), Auth: auth.Config{HMACSecretKey: string(tenantKey(j))}})
			}
		})
		if err != nil {
			c.Harnessf("start cluster: %v", err)
		}
		defer cl.Stop()
		n0 := cl.Nodes[0]
		c.Header["tenants"], c.Header["default_key"] = nT, hasDefault
		pu, _ := url.Parse("http://" + n0.UpstreamAddr())
		for q, nq := 0, c.Int("attempts", 3, 14); q < nq; q++ {
			signer := c.Int("signer", -2, nT-1) // -2 unknown key, -1 default key, i tenant i
			header := c.Int("tenantHeader", -2, nT-1)
			claims := drawClaims(c)
			ep := c.OneOf("ep", "e1", "e10")
			var key []byte
			switch {
			case signer == -2:
				key = []byte("some-unknown-key-0123456789abcdef012")
			case signer == -1:
				key = defKey
			default:
				key = tenantKey(signer)
			}
			hdr := ""
			switch {
			case header == -2:
				hdr = "nobody"
			case header >= 0:
				hdr = fmt.Sprintf("t%d", header)
			}
			want := permitted(claims, ep)
			switch {
			case hdr == "":
				want = want && nT == 0 && signer == -1 && hasDefault
			case header == -2:
				want = false
			default:
				want = want && signer == header
			}
			if (signer >= 0 && header >= 0 && signer != header) || (signer == -1 && nT > 0) {
				c.NonTrivial()
			}
			before := n0.Srv.ClusterState().LocalEndpointListeners(ep)
			ctx, cancel := context.WithTimeout(context.Background(), Deadline())
			ln, err := (&client.Upstream{URL: pu, Token: MintHS(key, claims, time.Time{}), TenantID: hdr}).Listen(ctx, ep)
			cancel()
			got := err == nil
			c.Stepf("signer=%d tenantHeader=%q claims=%q ep=%s -> accepted=%v err=%v (want %v)", signer, hdr, claims, ep, got, err, want)
			if got {
				// registration on the server is asynchronous: see it appear, then see it go
				Eventually(Deadline(), func() bool { return n0.Srv.ClusterState().LocalEndpointListeners(ep) == before+1 })
				_ = ln.Shutdown()
				if !Eventually(Deadline(), func() bool { return n0.Srv.ClusterState().LocalEndpointListeners(ep) == before }) {
					c.Harnessf("the accepted listener did not deregister")
				}
			}
			if got && !want {
				c.Fatalf("C10: listener accepted with token signed by %d under tenant header %q (tenants=%d, default key=%v, claims %q, endpoint %s)", signer, hdr, nT, hasDefault, claims, ep)
			}
			if !got && want {
				c.Fatalf("C10: listener refused (%v) with token signed by %d under tenant header %q (tenants=%d, default key=%v, claims %q, endpoint %s)", err, signer, hdr, nT, hasDefault, claims, ep)
			}
			if !got && !strings.Contains(err.Error(), "401") {
				c.Fatalf("C10: refusal is not a 401: %v", err)
			}
			if !got && n0.Srv.ClusterState().LocalEndpointListeners(ep) != before {
				c.Fatalf("C10: a refused listener was registered")
			}
		}
	})
}
