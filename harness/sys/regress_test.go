package sys

import (
	"context"
	"fmt"
	"io"
	"net/http"
	"testing"
	"time"

	"github.com/andydunstall/piko/pkg/log"
	"github.com/andydunstall/piko/server/cluster"
	"github.com/andydunstall/piko/server/config"

	"verif/harness/vlib"
)

// D3 (fixed): 'Upgrade: WebSocket' tunnels survive the proxy timeout.
func TestRegressD3(t *testing.T) {
	vlib.SetRule("C08", "TestRegressD3", "fixed regression case of finding D3: protocol upgrade with the token spelt 'WebSocket' held open beyond the proxy timeout, Go SDK and agent upstreams")
	vlib.Fixed(t, "C08", false, func(c *vlib.Case) {
		for _, kind := range []string{"sdk-http", "agent-http"} {
			timeout := 200 * time.Millisecond
			cl, err := StartCluster(1, false, func(i int, conf *config.Config) { conf.Proxy.Timeout = timeout })
			if err != nil {
				c.Harnessf("start cluster: %v", err)
			}
			up, err := ConnectUpstream(context.Background(), cl.Nodes[0], "u0", "e1", kind, UpstreamOpts{})
			if err != nil {
				cl.Stop()
				c.Harnessf("connect: %v", err)
			}
			up.Handler = func(u *Up, w http.ResponseWriter, r *http.Request, rec *Recorded) {
				conn, brw, err := w.(http.Hijacker).Hijack()
				if err != nil {
					return
				}
				defer conn.Close()
				fmt.Fprintf(brw, "HTTP/1.1 101 Switching Protocols\r\nUpgrade: %s\r\nConnection: Upgrade\r\n\r\n", r.Header.Get("Upgrade"))
				_ = brw.Flush()
				_, _ = io.Copy(conn, brw)
			}
			Eventually(Deadline(), func() bool { return cl.Nodes[0].Srv.ClusterState().LocalEndpointListeners("e1") == 1 })
			conn, br, status, err := rawUpgrade(cl.Nodes[0].ProxyAddr(), "e1.piko.test", "WebSocket")
			if err != nil || status != 101 {
				up.Disconnect()
				cl.Stop()
				c.Fatalf("C08: upgrade through the proxy failed: status=%d err=%v", status, err)
			}
			time.Sleep(timeout + 400*time.Millisecond)
			_, werr := conn.Write([]byte("ping"))
			buf := make([]byte, 4)
			_ = conn.SetReadDeadline(time.Now().Add(5 * time.Second))
			_, rerr := io.ReadFull(br, buf)
			conn.Close()
			up.Disconnect()
			cl.Stop()
			c.Stepf("%s: after %v write err=%v read err=%v", kind, timeout+400*time.Millisecond, werr, rerr)
			if werr != nil || rerr != nil || string(buf) != "ping" {
				c.Fatalf("C08: a tunnel upgraded with 'Upgrade: WebSocket' (%s upstream) was cut at the proxy timeout: write=%v read=%v", kind, werr, rerr)
			}
		}
	})
}

// D6 (fixed): an upstream 404 without a body reaches the client unchanged.
func TestRegressD6(t *testing.T) {
	vlib.SetRule("C08", "TestRegressD6", "fixed regression case of finding D6: upstream answers 404 with its own content type and no body, Go SDK and agent upstreams")
	vlib.Fixed(t, "C08", false, func(c *vlib.Case) {
		for _, kind := range []string{"sdk-http", "agent-http"} {
			cl, err := StartCluster(1, false, nil)
			if err != nil {
				c.Harnessf("start cluster: %v", err)
			}
			up, err := ConnectUpstream(context.Background(), cl.Nodes[0], "u0", "e1", kind, UpstreamOpts{})
			if err != nil {
				cl.Stop()
				c.Harnessf("connect: %v", err)
			}
			up.Handler = func(u *Up, w http.ResponseWriter, r *http.Request, rec *Recorded) {
				w.Header().Set("Content-Type", "application/x-verif")
				w.WriteHeader(404)
			}
			Eventually(Deadline(), func() bool { return cl.Nodes[0].Srv.ClusterState().LocalEndpointListeners("e1") == 1 })
			res := Get(cl.Nodes[0], "e1", "host", "", nil)
			up.Disconnect()
			cl.Stop()
			c.Stepf("%s: status=%d content-type=%q body=%q err=%v", kind, res.Status, res.Header.Get("Content-Type"), res.Body, res.Err)
			if res.Err != nil || res.Status != 404 || res.Header.Get("Content-Type") != "application/x-verif" || len(res.Body) != 0 {
				c.Fatalf("C08: upstream (%s) answered 404, Content-Type application/x-verif, empty body; the client received status=%d Content-Type=%q body=%q err=%v", kind, res.Status, res.Header.Get("Content-Type"), res.Body, res.Err)
			}
		}
	})
}

// D7 (fixed): 'Connection: x-piko-forward' does not make a request hop twice.
func TestRegressD7(t *testing.T) {
	vlib.SetRule("C06", "TestRegressD7", "fixed regression case of finding D7: n0 believes n1 serves the endpoint, n1 believes n2, only n2 has the upstream; request to n0 with 'Connection: x-piko-forward'")
	vlib.Fixed(t, "C06", false, func(c *vlib.Case) {
		cl, err := StartCluster(3, true, nil)
		if err != nil {
			c.Harnessf("start cluster: %v", err)
		}
		defer cl.Stop()
		var relays []*Relay
		for _, n := range cl.Nodes {
			r, err := NewRelay(n.ProxyAddr())
			if err != nil {
				c.Harnessf("relay: %v", err)
			}
			defer r.Close()
			relays = append(relays, r)
		}
		up, err := ConnectUpstream(context.Background(), cl.Nodes[2], "u2", "e1", "sdk-http", UpstreamOpts{})
		if err != nil {
			c.Harnessf("connect: %v", err)
		}
		defer up.Disconnect()
		Eventually(Deadline(), func() bool { return cl.Nodes[2].Srv.ClusterState().LocalEndpointListeners("e1") == 1 })
		cl.Nodes[0].Srv.ClusterState().AddNode(&cluster.Node{ID: "n1", Status: cluster.NodeStatusActive, ProxyAddr: relays[1].Addr(), AdminAddr: "x", Endpoints: map[string]int{"e1": 1}})
		cl.Nodes[1].Srv.ClusterState().AddNode(&cluster.Node{ID: "n2", Status: cluster.NodeStatusActive, ProxyAddr: relays[2].Addr(), AdminAddr: "x", Endpoints: map[string]int{"e1": 1}})
		for _, conn := range []string{"x-piko-forward", "close, X-Piko-Forward"} {
			before := relays[1].Count.Load() + relays[2].Count.Load()
			res := Get(cl.Nodes[0], "e1", "host", "", map[string]string{"Connection": conn})
			hops := relays[1].Count.Load() + relays[2].Count.Load() - before
			c.Stepf("Connection: %s -> status=%d upstream=%q hops=%d err=%v", conn, res.Status, res.Upstream, hops, res.Err)
			if hops > 1 || res.Status != 502 {
				c.Fatalf("C06: a request with 'Connection: %s' caused %d inter-node hops and ended with status %d (want one hop and 502: n1 has no local upstream)", conn, hops, res.Status)
			}
		}
	})
}

// D4 (fixed): the upstream listener reconnects to a survivor after its node shuts down.
func TestRegressD4(t *testing.T) {
	vlib.SetRule("C18", "TestRegressD4", "fixed regression case of finding D4: listener behind a load balancer on node 0 of 2; node 0 shuts down gracefully, then (second round) is killed")
	vlib.Fixed(t, "C18", false, func(c *vlib.Case) {
		for _, manner := range []string{"shutdown", "kill"} {
			cl, err := StartCluster(2, false, nil)
			if err != nil {
				c.Harnessf("start cluster: %v", err)
			}
			cl.WaitMembership(Deadline())
			lb, err := NewLB([]string{cl.Nodes[0].UpstreamAddr(), cl.Nodes[1].UpstreamAddr()})
			if err != nil {
				cl.Stop()
				c.Harnessf("lb: %v", err)
			}
			up, err := ConnectUpstream(context.Background(), cl.Nodes[0], "u0", "e1", "sdk-http", UpstreamOpts{URL: lb.URL()})
			if err != nil {
				cl.Stop()
				c.Harnessf("connect: %v", err)
			}
			Eventually(Deadline(), func() bool { return endpointsOn(cl.Nodes[0], "e1") == 1 })
			lb.MarkDead(cl.Nodes[0].UpstreamAddr(), 0)
			cl.Nodes[0].Up = false
			if manner == "shutdown" {
				cl.Nodes[0].Srv.Shutdown()
			} else {
				cl.Nodes[0].Srv.VerifKill()
			}
			ok := Eventually(2*Deadline(), func() bool { return endpointsOn(cl.Nodes[1], "e1") == 1 })
			aerr := up.AcceptErr.Load()
			c.Stepf("%s: re-registered on the survivor=%v accept error=%v", manner, ok, aerr)
			up.Disconnect()
			lb.Close()
			cl.Stop()
			if aerr != nil {
				c.Fatalf("C18: after %s of its node the listener's Accept returned %v instead of reconnecting", manner, aerr)
			}
			if !ok {
				c.Fatalf("C18: after %s of its node the listener did not reconnect to the surviving node within %v", manner, 2*Deadline())
			}
		}
	})
}

// D8 (fixed): an access-log response-header filter does not remove response trailers.
func TestRegressD8(t *testing.T) {
	vlib.SetRule("C08", "TestRegressD8", "fixed regression case of finding D8: the upstream answers with a body and the trailer X-Tr-A; the access log of the server proxy (Go SDK upstream) or of the agent (agent upstream) has a response-header allow list that does not name the trailer")
	vlib.Fixed(t, "C08", false, func(c *vlib.Case) {
		lists := log.AccessLogConfig{Level: "info"}
		lists.ResponseHeaders.AllowList = []string{"content-type"}
		for _, kind := range []string{"sdk-http", "agent-http"} {
			cl, err := StartCluster(1, false, func(i int, conf *config.Config) {
				if kind == "sdk-http" {
					conf.Proxy.AccessLog = lists
				}
			})
			if err != nil {
				c.Harnessf("start cluster: %v", err)
			}
			opts := UpstreamOpts{}
			if kind == "agent-http" {
				opts.AccessLog = &lists
			}
			up, err := ConnectUpstream(context.Background(), cl.Nodes[0], "u0", "e1", kind, opts)
			if err != nil {
				cl.Stop()
				c.Harnessf("connect: %v", err)
			}
			up.Handler = func(u *Up, w http.ResponseWriter, r *http.Request, rec *Recorded) {
				w.Header().Set("Trailer", "X-Tr-A")
				w.WriteHeader(200)
				_, _ = w.Write([]byte("body"))
				w.Header().Set("X-Tr-A", "sum=abc")
			}
			Eventually(Deadline(), func() bool { return cl.Nodes[0].Srv.ClusterState().LocalEndpointListeners("e1") == 1 })
			res := Get(cl.Nodes[0], "e1", "host", "", nil)
			up.Disconnect()
			cl.Stop()
			c.Stepf("%s: status=%d body=%q trailer=%v err=%v", kind, res.Status, res.Body, res.Trailer, res.Err)
			if res.Err != nil || res.Status != 200 || string(res.Body) != "body" || res.Trailer.Get("X-Tr-A") != "sum=abc" {
				c.Fatalf("C08: upstream (%s) answered 200 \"body\" with trailer X-Tr-A: sum=abc; the client received status=%d body=%q trailers=%v err=%v", kind, res.Status, res.Body, res.Trailer, res.Err)
			}
		}
	})
}

// D9 (fixed): an upstream aborting mid-body is not presented as a complete response.
func TestRegressD9(t *testing.T) {
	vlib.SetRule("C08", "TestRegressD9", "fixed regression case of finding D9: the upstream starts a 200 response without Content-Length, writes 10 of 2000 bytes, flushes and aborts (panic(http.ErrAbortHandler)); Go SDK and agent upstreams, entering at the upstream's node and at the other node")
	vlib.Fixed(t, "C08", false, func(c *vlib.Case) {
		for _, kind := range []string{"sdk-http", "agent-http"} {
			cl, err := StartCluster(2, false, nil)
			if err != nil {
				c.Harnessf("start cluster: %v", err)
			}
			up, err := ConnectUpstream(context.Background(), cl.Nodes[0], "u0", "e1", kind, UpstreamOpts{})
			if err != nil {
				cl.Stop()
				c.Harnessf("connect: %v", err)
			}
			up.Handler = func(u *Up, w http.ResponseWriter, r *http.Request, rec *Recorded) {
				w.WriteHeader(200)
				_, _ = w.Write(pat(10, 7))
				if f, ok := w.(http.Flusher); ok {
					f.Flush()
				}
				time.Sleep(30 * time.Millisecond)
				panic(http.ErrAbortHandler)
			}
			ok := WaitRoutable(cl.Nodes[1], cl.Nodes[0], "e1", Deadline())
			var results []*HTTPResult
			if ok {
				for _, entry := range cl.Nodes {
					results = append(results, Get(entry, "e1", "host", "", nil))
				}
			}
			up.Disconnect()
			cl.Stop()
			if !ok {
				Missf(c, "C08: endpoint did not propagate")
			}
			for i, res := range results {
				c.Stepf("%s via n%d: status=%d body=%d bytes err=%v", kind, i, res.Status, len(res.Body), res.Err)
				if res.Err == nil && res.Status == 200 {
					c.Fatalf("C08 fabricated success: the upstream (%s) aborted after 10 of 2000 bytes, yet the client (entering at n%d) received a complete, well-formed 200 response of %d bytes", kind, i, len(res.Body))
				}
			}
		}
	})
}
