package sys

import (
	"context"
	"encoding/json"
	"fmt"
	"io"
	"net"
	"net/http"
	"os"
	"reflect"
	"strings"
	"sync"
	"testing"
	"time"

	"github.com/andydunstall/piko/pkg/auth"
	"github.com/andydunstall/piko/server/config"

	"verif/harness/vlib"
)

type c16Up struct {
	u     *Up
	relay *Relay
	node  *TNode
	state string // connected, goaway, ended
	exp   time.Time
	conns int64 // connections this listener has made through its relay, as far as the model knows
}

func statusEndpoints(n *TNode) (map[string]int, error) {
	resp, err := httpClient.Get("http://" + n.AdminAddr() + "/status/upstream/endpoints")
	if err != nil {
		return nil, err
	}
	defer resp.Body.Close()
	b, _ := io.ReadAll(resp.Body)
	m := map[string]int{}
	if err := json.Unmarshal(b, &m); err != nil {
		return nil, fmt.Errorf("status %d body %q: %w", resp.StatusCode, b, err)
	}
	return m, nil
}

func TestC16(t *testing.T) {
	vlib.SetRule("C16", "TestC16", "1-2 real nodes with an HMAC-protected upstream port (in a third of the cases multi-tenant, every listener connecting as the tenant; in a quarter of the others keyed by a JWK set file); 2-6 upstream listeners on shared and distinct endpoints connect through cuttable relays and end in a drawn order by: client Shutdown, go-away (optionally hit by a request, the proxy's ErrGone removal) then Shutdown, abrupt relay cut (FIN or RST), server-initiated shedding (Rebalance), optionally with a slow request in flight; then 0-2 listeners with a token expiring 1.2-2.2 s ahead (disconnect-on-expiry enabled or disabled per cluster); finally node shutdown (in a third of the cases with a 1 s grace period while a client that sent half a request occupies the upstream port); oracle at every quiescent point: status API registry == cluster endpoints == model of open connections and open-session count == model, everything empty/0 after shutdown; expiry: still registered 300 ms before exp, deregistered in [exp, exp+deadline], or still registered 1 s after exp when disabled; in-flight requests end in 200 or a gateway error; a listener whose connection nothing has ended never has to reconnect (connections counted at its relay); non-trivial = two different ending modes hit the same endpoint while a sibling stays connected, or an ending with a request in flight")
	vlib.Run(t, "C16", func(c *vlib.Case) {
		k := TestKeys()
		N := c.Int("nodes", 1, 2)
		disableExpiry := c.Chance("disableDisconnectOnExpiry", 1, 3)
		// some nodes are shut down while a client that has sent only part of a request
		// occupies their upstream port: the HTTP drain then runs into the (short) grace
		// period, and the upstream connections must be released all the same
		stalled := c.Chance("stalledConnAtShutdown", 1, 3)
		// a third of the clusters are multi-tenant: every listener then connects as
		// tenant t0 with a token signed by that tenant's key
		useTenants := c.Chance("tenants", 1, 3)
		signKey, tenantID := k.HMAC, ""
		if useTenants {
			signKey, tenantID = []byte("tenant-t0-key-0123456789abcdef0123456"), "t0"
			c.Class("multi-tenant-upstream-port")
		}
		// a quarter of the single-tenant clusters take their key from a JWK set file
		// (tokens are then RS256)
		useJWKS := !useTenants && c.Chance("jwks", 1, 4)
		jwksPath := ""
		if useJWKS {
			dir, err := os.MkdirTemp("", "verif-c16-")
			if err != nil {
				c.Harnessf("%v", err)
			}
			defer os.RemoveAll(dir)
			if jwksPath, err = writeJWKS(dir); err != nil {
				c.Harnessf("%v", err)
			}
			c.Class("jwks-key-configuration")
		}
		mint := func(exp time.Time) string {
			if useJWKS {
				return MintRS(nil, exp)
			}
			return MintHS(signKey, nil, exp)
		}
		cl, err := StartCluster(N, false, func(i int, conf *config.Config) {
			if stalled {
				conf.GracePeriod = time.Second
			}
			if useJWKS {
				conf.Upstream.Auth.JWKS.Endpoint = "file://" + jwksPath
				conf.Upstream.Auth.DisableDisconnectOnExpiry = disableExpiry
				conf.Upstream.Rebalance.MinConns = 0
				conf.Upstream.Rebalance.ShedRate = 0.3
				return
			}
			if useTenants {
				conf.Upstream.Tenants = []config.TenantConfig{{ID: "t0", Auth: auth.Config{HMACSecretKey: string(signKey), DisableDisconnectOnExpiry: disableExpiry}}}
			}
			conf.Upstream.Auth.HMACSecretKey = string(k.HMAC)
			conf.Upstream.Auth.DisableDisconnectOnExpiry = disableExpiry
			conf.Upstream.Rebalance.MinConns = 0
			conf.Upstream.Rebalance.ShedRate = 0.3
		})
		if err != nil {
			c.Harnessf("start cluster: %v", err)
		}
		defer cl.Stop()
		if !cl.WaitMembership(Deadline()) {
			Missf(c, "C16: cluster did not form")
		}
		c.Header["nodes"], c.Header["disable_disconnect_on_expiry"] = N, disableExpiry
		var ups []*c16Up
		defer func() {
			for _, x := range ups {
				x.relay.cut.Store(true)
				x.u.Disconnect()
				x.relay.Close()
			}
		}()
		connect := func(id int, ep string, node *TNode, exp time.Time, slow bool) *c16Up {
			r, err := NewRelay(node.UpstreamAddr())
			if err != nil {
				c.Harnessf("relay: %v", err)
			}
			tok := mint(exp)
			u, err := ConnectUpstream(context.Background(), node, fmt.Sprintf("u%d", id), ep, "sdk-http", UpstreamOpts{URL: "http://" + r.Addr(), Token: tok, TenantID: tenantID})
			if err != nil {
				c.Fatalf("C16: upstream u%d could not connect: %v", id, err)
			}
			if slow {
				u.Handler = func(u *Up, w http.ResponseWriter, r *http.Request, rec *Recorded) {
					time.Sleep(200 * time.Millisecond)
					w.WriteHeader(200)
				}
			}
			x := &c16Up{u: u, relay: r, node: node, state: "connected", exp: exp}
			ups = append(ups, x)
			return x
		}
		// model and observation
		model := func() (def, may map[string]map[string]int, sessLo, sessHi map[string]int) {
			def, may = map[string]map[string]int{}, map[string]map[string]int{}
			sessLo, sessHi = map[string]int{}, map[string]int{}
			for _, n := range cl.Nodes {
				def[n.ID], may[n.ID] = map[string]int{}, map[string]int{}
			}
			for _, x := range ups {
				switch x.state {
				case "connected":
					def[x.node.ID][x.u.Endpoint]++
					sessLo[x.node.ID]++
					sessHi[x.node.ID]++
				case "goaway":
					may[x.node.ID][x.u.Endpoint]++
					sessLo[x.node.ID]++
					sessHi[x.node.ID]++
				}
			}
			return
		}
		observe := func() string {
			def, may, sessLo, sessHi := model()
			for _, n := range cl.Live() {
				reg, err := statusEndpoints(n)
				if err != nil {
					return fmt.Sprintf("status API of %s: %v", n.ID, err)
				}
				loc := n.Srv.ClusterState().LocalNode().Endpoints
				if loc == nil {
					loc = map[string]int{}
				}
				if !reflect.DeepEqual(reg, loc) {
					return fmt.Sprintf("%s: registry %v but cluster state advertises %v", n.ID, reg, loc)
				}
				eps := map[string]bool{}
				for e := range reg {
					eps[e] = true
				}
				for e := range def[n.ID] {
					eps[e] = true
				}
				for e := range eps {
					lo, hi := def[n.ID][e], def[n.ID][e]+may[n.ID][e]
					if reg[e] < lo || reg[e] > hi {
						return fmt.Sprintf("%s: %d upstreams registered for %s, open connections in the model: %d (+%d after go-away)", n.ID, reg[e], e, lo, may[n.ID][e])
					}
				}
				s := n.Srv.VerifUpstream().VerifOpenSessions()
				if s < sessLo[n.ID] || s > sessHi[n.ID] {
					return fmt.Sprintf("%s: holds %d sessions, model has %d open connections", n.ID, s, sessLo[n.ID])
				}
			}
			return ""
		}
		quiesce := func(when string) {
			var last string
			ok := Eventually(Deadline(), func() bool { last = observe(); return last == "" })
			if !ok {
				c.Class("timing-retry")
				ok = Eventually(2*Deadline(), func() bool { last = observe(); return last == "" })
			}
			if !ok {
				c.Fatalf("C16 (%s): registry, cluster state and sessions do not match the open connections: %s", when, last)
			}
			time.Sleep(50 * time.Millisecond)
			if msg := observe(); msg != "" {
				// not stable: may still be moving; one more settle
				if !Eventually(Deadline(), func() bool { last = observe(); return last == "" }) {
					c.Fatalf("C16 (%s): unstable after quiescence: %s", when, last)
				}
			}
		}
		K := c.Int("upstreams", 2, 6)
		for i := 0; i < K; i++ {
			// tokens without an expiry and tokens that expire long after the scenario ends
			var exp time.Time
			if c.Bool("tokenWithFarExpiry") {
				exp = time.Now().Add(time.Hour)
				c.Class("far-expiry-token")
			}
			connect(i, c.OneOf("ep", "e0", "e1"), cl.Nodes[c.Pick("node", N)], exp, c.Chance("slow", 1, 3))
		}
		quiesce("after connecting")
		// "closed ... at that expiry and not before": the server never closes a connection
		// that nothing has ended. A closed listener reconnects at once, which the
		// registry cannot show - the count of connections made through its relay can.
		for _, x := range ups {
			x.conns = x.relay.Count.Load()
		}
		noSurpriseReconnects := func(when string, shed bool) {
			for _, x := range ups {
				if x.state != "connected" {
					continue
				}
				if now := x.relay.Count.Load(); now != x.conns {
					if !shed {
						c.Fatalf("C16 (%s): listener %s (%s on %s) was disconnected and has reconnected (%d connections so far, %d expected) although nothing ended its connection and its token has not expired", when, x.u.ID, x.u.Endpoint, x.node.ID, now, x.conns)
					}
					x.conns = now
				}
			}
		}
		// endings
		modesPerEp := map[string]map[string]bool{}
		inflightEnding := false
		order := c.Perm("order", K)
		nEnd := c.Int("endings", 1, K)
		for _, idx := range order[:nEnd] {
			x := ups[idx]
			mode := c.OneOf("mode", "shutdown", "goaway", "goaway-hit", "cut-fin", "cut-rst", "shed")
			if mode == "shed" && N < 2 {
				mode = "shutdown"
			}
			inflight := c.Chance("inflight", 1, 3)
			c.Stepf("end %s (%s on %s) by %s inflight=%v", x.u.ID, x.u.Endpoint, x.node.ID, mode, inflight)
			var wg sync.WaitGroup
			var res *HTTPResult
			if inflight {
				wg.Add(1)
				go func() {
					defer wg.Done()
					res = Get(x.node, x.u.Endpoint, "host", "", map[string]string{"Authorization": "Bearer " + MintHS(k.HMAC, nil, time.Time{})})
				}()
				time.Sleep(40 * time.Millisecond)
				inflightEnding = true
			}
			switch mode {
			case "shutdown":
				x.state = "ended"
				x.relay.cut.Store(true)
				x.u.MarkGone()
				_ = x.u.Listener().Shutdown()
			case "goaway", "goaway-hit":
				x.state = "goaway"
				x.u.MarkGone()
				_ = x.u.Listener().Close()
				if mode == "goaway-hit" {
					// requests make the proxy discover ErrGone and remove the upstream itself
					for q := 0; q < 4; q++ {
						r := Get(x.node, x.u.Endpoint, "host", "", nil)
						if r.Err == nil && r.Status != 200 && r.Status != 502 && r.Status != 504 {
							c.Fatalf("C16: request after go-away answered %d", r.Status)
						}
					}
				}
				quiesce("after go-away of " + x.u.ID)
				x.state = "ended"
				x.relay.cut.Store(true)
				_ = x.u.Listener().Shutdown()
			case "cut-fin", "cut-rst":
				x.state = "ended"
				x.u.MarkGone()
				x.relay.cut.Store(true)
				if mode == "cut-rst" {
					x.relay.CutAll()
				} else {
					x.relay.mu.Lock()
					for _, cn := range x.relay.conns {
						if tc, ok := cn.(*net.TCPConn); ok {
							_ = tc.CloseWrite()
						}
						cn.Close()
					}
					x.relay.conns = nil
					x.relay.mu.Unlock()
				}
			case "shed":
				// server-initiated: the busiest node sheds; listeners reconnect on their own
				x.node.Srv.VerifUpstream().Rebalance()
			}
			wg.Wait()
			if res != nil {
				if res.Err == nil && res.Status != 200 && res.Status != 502 && res.Status != 504 {
					c.Fatalf("C16: request in flight while %s ended by %s answered %d", x.u.ID, mode, res.Status)
				}
			}
			if modesPerEp[x.u.Endpoint] == nil {
				modesPerEp[x.u.Endpoint] = map[string]bool{}
			}
			modesPerEp[x.u.Endpoint][mode] = true
			quiesce("after ending " + x.u.ID + " by " + mode)
			noSurpriseReconnects("after ending "+x.u.ID+" by "+mode, mode == "shed")
		}
		for ep, ms := range modesPerEp {
			sibling := false
			for _, x := range ups {
				if x.u.Endpoint == ep && x.state == "connected" {
					sibling = true
				}
			}
			if len(ms) >= 2 && sibling {
				c.NonTrivial()
			}
		}
		if inflightEnding {
			c.NonTrivial()
		}
		// token expiry
		E := c.Int("expiring", 0, 2)
		if E > 0 {
			exp := time.Now().Add(2200 * time.Millisecond).Truncate(time.Second)
			if time.Until(exp) < 1200*time.Millisecond {
				exp = exp.Add(time.Second)
			}
			var xs []*c16Up
			for i := 0; i < E; i++ {
				x := connect(K+i, c.OneOf("ep", "e0", "e1", "e2"), cl.Nodes[c.Pick("node", N)], exp, false)
				x.u.MarkGone() // after expiry the listener's reconnect is refused: Accept errors are expected
				xs = append(xs, x)
			}
			c.Stepf("%d listeners with tokens expiring at %v (disable=%v)", E, exp.Format("15:04:05.000"), disableExpiry)
			quiesce("after connecting expiring listeners")
			time.Sleep(time.Until(exp.Add(-300 * time.Millisecond)))
			msg := observe()
			if time.Now().Before(exp.Add(-30 * time.Millisecond)) {
				if msg != "" {
					c.Fatalf("C16: before the token expiry (%v ahead) a listener is already gone: %s", time.Until(exp), msg)
				}
				c.Class("checked-still-registered-before-expiry")
			} else {
				c.Class("pre-expiry-observation-too-slow(not-asserted)")
			}
			if disableExpiry {
				time.Sleep(time.Until(exp.Add(time.Second)))
				if msg := observe(); msg != "" {
					c.Fatalf("C16: disconnect-on-expiry is disabled but 1 s after the expiry: %s", msg)
				}
				c.Class("expiry-disabled-kept")
				// keeping a connection past the expiry is one thing, admitting a NEW one with the
				// expired token (the very string that was accepted while valid) is another
				if len(xs) > 0 {
					x := xs[0]
					ctx, cancel := context.WithTimeout(context.Background(), Deadline())
					late, err := ConnectUpstream(ctx, x.node, fmt.Sprintf("late%d", K), x.u.Endpoint, "sdk-http", UpstreamOpts{Token: mint(exp), TenantID: tenantID})
					cancel()
					if err == nil {
						late.Disconnect()
						c.Fatalf("C16: a new listener was admitted %v after the expiry of its token (the same token string had been accepted while valid; disconnect-on-expiry disabled)", time.Since(exp).Round(time.Millisecond))
					}
					if !strings.Contains(err.Error(), "401") {
						c.Fatalf("C16: connecting with an expired token failed oddly: %v", err)
					}
				}
			} else {
				// the server must close at the expiry: not before, and within the deadline
				for _, x := range xs {
					x.relay.cut.Store(true) // no re-registration with the expired token
				}
				withX := map[*c16Up]int{}
				for _, x := range xs {
					withX[x] = countConnected(ups, x.node, x.u.Endpoint)
				}
				goneAt := map[*c16Up]time.Time{}
				end := exp.Add(Deadline())
				for time.Now().Before(end) && len(goneAt) < len(xs) {
					for _, x := range xs {
						if _, seen := goneAt[x]; !seen && x.node.Srv.ClusterState().LocalEndpointListeners(x.u.Endpoint) < withX[x] {
							goneAt[x] = time.Now()
						}
					}
					time.Sleep(2 * time.Millisecond)
				}
				for _, x := range xs {
					x.state = "ended"
					if at, seen := goneAt[x]; seen && at.Before(exp.Add(-20*time.Millisecond)) {
						c.Fatalf("C16: listener %s authenticated until %v was disconnected at %v, before its token expired", x.u.ID, exp.Format("15:04:05.000"), at.Format("15:04:05.000"))
					}
				}
				quiesce("after token expiry")
				c.Class("expiry-enforced")
			}
		}
		// node shutdown releases everything
		for _, n := range cl.Nodes {
			if stalled {
				sc, err := net.DialTimeout("tcp", n.UpstreamAddr(), 5*time.Second)
				if err != nil {
					c.Harnessf("dial upstream port: %v", err)
				}
				defer sc.Close()
				_, _ = sc.Write([]byte("GET /piko/v1/upstream/e1 HTTP/1.1\r\nHost: stalled\r\nX-Partial: "))
				time.Sleep(50 * time.Millisecond) // let the server start reading the request
				c.Stepf("a client with half a request occupies the upstream port of %s during its shutdown (grace period 1s)", n.ID)
				c.Class("shutdown-with-stalled-connection")
			}
			n.Up = false
			done := make(chan struct{})
			go func() { n.Srv.Shutdown(); close(done) }()
			select {
			case <-done:
			case <-time.After(Deadline() + 10*time.Second):
				c.Fatalf("C16: shutdown of %s did not return", n.ID)
			}
			for _, x := range ups {
				x.relay.cut.Store(true)
			}
			ok := Eventually(Deadline(), func() bool {
				return n.Srv.VerifUpstream().VerifOpenSessions() == 0 && len(n.Srv.ClusterState().LocalNode().Endpoints) == 0
			})
			if !ok {
				c.Fatalf("C16: after shutdown %s still holds %d sessions and advertises %v", n.ID, n.Srv.VerifUpstream().VerifOpenSessions(), n.Srv.ClusterState().LocalNode().Endpoints)
			}
		}
	})
}

func countConnected(ups []*c16Up, n *TNode, ep string) int {
	k := 0
	for _, x := range ups {
		if x.node == n && x.u.Endpoint == ep && x.state == "connected" {
			k++
		}
	}
	return k
}
