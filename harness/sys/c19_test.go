package sys

import (
	"context"
	"fmt"
	"testing"
	"time"

	"github.com/andydunstall/piko/server/config"

	"verif/harness/vlib"
)

// C19 (SYS): with rebalancing disabled (threshold 0) an imbalanced node never sheds.
func TestC19Disabled(t *testing.T) {
	vlib.SetRule("C19", "TestC19Disabled", "real 2-node cluster, all 3-8 upstream listeners on one node (through counting relays), rebalance minimum 0 and a drawn shed rate; with threshold 0 (disabled) no listener connection is closed during 2.5 s (the 1 s rebalance ticker must not exist); a control run with a small threshold records (without asserting) that shedding does happen; every case is non-trivial")
	vlib.Run(t, "C19", func(c *vlib.Case) {
		enabled := c.Chance("controlEnabled", 1, 3)
		rate := float64(c.Int("shedRatePercent", 10, 100)) / 100
		cl, err := StartCluster(2, false, func(i int, conf *config.Config) {
			conf.Upstream.Rebalance.MinConns = 0
			conf.Upstream.Rebalance.ShedRate = rate
			if enabled {
				conf.Upstream.Rebalance.Threshold = 0.1
			}
		})
		if err != nil {
			c.Harnessf("start cluster: %v", err)
		}
		defer cl.Stop()
		cl.WaitMembership(Deadline())
		K := c.Int("upstreams", 3, 8)
		var relays []*Relay
		for i := 0; i < K; i++ {
			r, err := NewRelay(cl.Nodes[0].UpstreamAddr())
			if err != nil {
				c.Harnessf("relay: %v", err)
			}
			defer r.Close()
			relays = append(relays, r)
			u, err := ConnectUpstream(context.Background(), cl.Nodes[0], fmt.Sprintf("u%d", i), fmt.Sprintf("e%d", i%2), "sdk-http", UpstreamOpts{URL: "http://" + r.Addr()})
			if err != nil {
				c.Harnessf("connect: %v", err)
			}
			defer u.Disconnect()
		}
		Eventually(Deadline(), func() bool { return cl.Nodes[0].Srv.VerifUpstream().VerifOpenSessions() == K })
		c.NonTrivial()
		c.Stepf("%d listeners on n0, none on n1, rebalance enabled=%v rate=%v", K, enabled, rate)
		time.Sleep(2500 * time.Millisecond)
		reconnects := int64(0)
		for _, r := range relays {
			reconnects += r.Count.Load() - 1
		}
		if !enabled {
			if reconnects != 0 {
				c.Fatalf("C19: rebalancing is disabled (threshold 0) but %d listener connections were closed by the server within 2.5 s", reconnects)
			}
			c.Class("disabled-no-shedding")
		} else {
			c.Class(fmt.Sprintf("control-enabled-reconnects>0=%v", reconnects > 0))
		}
	})
}
