package sys

import (
	"context"
	"fmt"
	"io"
	"net"
	"net/http"
	"strings"
	"sync"
	"sync/atomic"
	"testing"
	"time"

	"github.com/andydunstall/piko/server/cluster"

	"verif/harness/vlib"
)

// Relay is a TCP relay in front of one address that counts connections.
type Relay struct {
	ln     net.Listener
	target string
	Count  atomic.Int64
	mu     sync.Mutex
	conns  []net.Conn
	cut    atomic.Bool // when set, new connections are closed at once
}

func NewRelay(target string) (*Relay, error) {
	ln, err := net.Listen("tcp", sameHost(target))
	if err != nil {
		return nil, err
	}
	r := &Relay{ln: ln, target: target}
	go func() {
		for {
			c, err := ln.Accept()
			if err != nil {
				return
			}
			r.Count.Add(1)
			if r.cut.Load() {
				c.Close()
				continue
			}
			go r.pipe(c)
		}
	}()
	return r, nil
}

func (r *Relay) Addr() string { return r.ln.Addr().String() }

func (r *Relay) pipe(c net.Conn) {
	up, err := net.Dial("tcp", r.target)
	if err != nil {
		c.Close()
		return
	}
	r.mu.Lock()
	r.conns = append(r.conns, c, up)
	r.mu.Unlock()
	go func() { _, _ = io.Copy(up, c); up.Close(); c.Close() }()
	_, _ = io.Copy(c, up)
	c.Close()
	up.Close()
}

// CutAll abruptly closes every relayed connection.
func (r *Relay) CutAll() {
	r.mu.Lock()
	defer r.mu.Unlock()
	for _, c := range r.conns {
		if tc, ok := c.(*net.TCPConn); ok {
			_ = tc.SetLinger(0)
		}
		c.Close()
	}
	r.conns = nil
}

func (r *Relay) Close() { r.ln.Close(); r.CutAll() }

func TestC06(t *testing.T) {
	vlib.SetRule("C06", "TestC06", "2-4 real nodes started WITHOUT joining each other; every node's routing table is written directly (any subset of the others believed to serve the endpoint, rightly or wrongly, with drawn status and count), each believed node's proxy address pointing at a counting relay in front of it; real upstream placement drawn independently; requests over the HTTP route (optionally with a client-supplied x-piko-forward: true) and the TCP route from every entry node; oracle per request: inter-node hops <= 1, a local upstream always wins with 0 hops, a forwarded request is served by a local upstream of the receiver or answered 502 with no further hop, no believed server -> 502 with 0 hops; non-trivial = the believed-serves graph has a cycle or a stale edge (believed server without an upstream)")
	vlib.Run(t, "C06", func(c *vlib.Case) {
		N := c.Int("nodes", 2, 4)
		cl, err := StartCluster(N, true, nil)
		if err != nil {
			c.Harnessf("start cluster: %v", err)
		}
		defer cl.Stop()
		relays := make([]*Relay, N)
		for i, n := range cl.Nodes {
			r, err := NewRelay(n.ProxyAddr())
			if err != nil {
				c.Harnessf("relay: %v", err)
			}
			relays[i] = r
			defer r.Close()
		}
		proto := c.OneOf("proto", "http", "tcp")
		ep := "e1"
		kind := "sdk-http"
		if proto == "tcp" {
			ep, kind = "t1", "sdk-tcp"
		}
		// real placement
		hasUp := make([]*Up, N)
		for i, n := range cl.Nodes {
			if c.Chance("hasUpstream", 1, 2) {
				u, err := ConnectUpstream(context.Background(), n, fmt.Sprintf("u%d", i), ep, kind, UpstreamOpts{})
				if err != nil {
					c.Harnessf("connect upstream: %v", err)
				}
				hasUp[i] = u
				defer u.Disconnect()
			}
		}
		// some upstreams announce go-away (listener Close): still registered, but the
		// first dial reports that they are gone and the proxy removes them
		goaway := make([]bool, N)
		for i, n := range cl.Nodes {
			want := 0
			if hasUp[i] != nil {
				want = 1
			}
			if !Eventually(Deadline(), func() bool { return n.Srv.ClusterState().LocalEndpointListeners(ep) == want }) {
				c.Harnessf("upstream registration on %s not visible", n.ID)
			}
		}
		for i := range cl.Nodes {
			if hasUp[i] != nil && c.Chance("goAway", 1, 3) {
				goaway[i] = true
				hasUp[i].MarkGone()
				_ = hasUp[i].Listener().Close()
				c.Stepf("upstream of %s announced go-away", cl.Nodes[i].ID)
				c.Class("go-away-upstream")
			}
		}
		// wait until every server has seen the go-away of its upstream
		for i := range cl.Nodes {
			if goaway[i] {
				n := cl.Nodes[i]
				if !Eventually(Deadline(), func() bool { return n.Srv.VerifUpstream().VerifGoAwaySessions() == 1 }) {
					c.Harnessf("go-away of the upstream on %s was not seen by the server", n.ID)
				}
			}
		}
		// believed views
		believes := make([][]bool, N) // believes[i][j]: i thinks j serves ep (active, count>0)
		stale, cycle := false, false
		for i, n := range cl.Nodes {
			believes[i] = make([]bool, N)
			for j, m := range cl.Nodes {
				if i == j || !c.Chance("knows", 2, 3) {
					continue
				}
				st := []cluster.NodeStatus{cluster.NodeStatusActive, cluster.NodeStatusActive, cluster.NodeStatusActive, cluster.NodeStatusUnreachable, cluster.NodeStatusLeft}[c.Pick("status", 5)]
				cnt := c.Int("count", 0, 2)
				node := &cluster.Node{ID: m.ID, Status: st, ProxyAddr: relays[j].Addr(), AdminAddr: m.AdminAddr()}
				if cnt > 0 || c.Bool("zeroEntry") {
					node.Endpoints = map[string]int{ep: cnt}
				}
				n.Srv.ClusterState().AddNode(node)
				believes[i][j] = st == cluster.NodeStatusActive && cnt > 0
				c.Stepf("%s believes %s: status=%s %s=%d", n.ID, m.ID, st, ep, cnt)
				if believes[i][j] && hasUp[j] == nil {
					stale = true
				}
			}
		}
		for i := 0; i < N; i++ {
			for j := 0; j < N; j++ {
				if believes[i][j] && believes[j][i] {
					cycle = true
				}
			}
		}
		if stale || cycle {
			c.NonTrivial()
		}
		if cycle {
			c.Class("mutual-belief-cycle")
		}
		if stale {
			c.Class("stale-belief")
		}
		for q, nq := 0, c.Int("requests", 1, 8); q < nq; q++ {
			entry := c.Pick("entry", N)
			fwdHeader := proto == "http" && c.Chance("clientForwardHeader", 1, 4)
			before := make([]int64, N)
			for j := range relays {
				before[j] = relays[j].Count.Load()
			}
			var status int
			var stampUp string
			var terr error
			if proto == "http" {
				hdr := map[string]string{}
				if fwdHeader {
					hdr["x-piko-forward"] = "true"
				} else if v := c.OneOf("clientForwardOther", "-", "-", "-", "false", "0", "", "TRUE "); v != "-" {
					// a client-supplied marker that does not say "true" changes nothing:
					// in particular it must not shadow the marker piko sets when it forwards
					hdr["X-Piko-Forward"] = v
					c.Class("client-forward-header-not-true")
				}
				if conn := c.OneOf("connectionHeader", "", "", "", "x-piko-forward", "close, X-Piko-Forward", "keep-alive, x-piko-endpoint", "keep-alive\nx-piko-forward", "keep-alive\nX-Verif-Hop\nx-piko-endpoint, X-Piko-Forward"); conn != "" {
					hdr["Connection"] = conn
					c.Class("client-connection-header")
				}
				res := Get(cl.Nodes[entry], ep, c.OneOf("mode", "host", "header"), "", hdr)
				status, stampUp, terr = res.Status, res.Upstream, res.Err
				if res.Err == nil && res.Status == 200 && res.Endpoint != ep {
					c.Fatalf("C06: served by an upstream of endpoint %q", res.Endpoint)
				}
			} else if conn := c.OneOf("tcpConnectionHeader", "", "", "Upgrade, x-piko-forward", "upgrade, X-Piko-Forward, x-piko-endpoint"); conn != "" {
				// the TCP route as a hand-made WebSocket handshake whose Connection header
				// also names piko's own headers
				c.Class("client-connection-header-on-upgrade")
				wc, br, st, err := rawUpgradePath(cl.Nodes[entry].ProxyAddr(), "x", "/_piko/v1/tcp/"+ep, "websocket", conn)
				switch {
				case err != nil:
					terr = err
				case st == 101:
					status = 200
					// one binary frame carries the stamp line: skip the 2-byte frame header
					_ = wc.SetReadDeadline(time.Now().Add(10 * time.Second))
					hdr := make([]byte, 2)
					if _, err := io.ReadFull(br, hdr); err == nil {
						line, _ := br.ReadString('\n')
						f := strings.Fields(line)
						if len(f) == 3 {
							stampUp = f[2]
						}
					}
					wc.Close()
				default:
					status = st
				}
			} else {
				res := DialTCP(cl.Nodes[entry], ep, "", false)
				if res.Err == nil {
					status, stampUp = 200, res.Upstream
				} else if IsGatewayRefusal(res.Err) {
					status = 502
				} else {
					terr = res.Err
				}
			}
			hops := int64(0)
			hit := -1
			for j := range relays {
				d := relays[j].Count.Load() - before[j]
				hops += d
				if d > 0 {
					hit = j
				}
			}
			c.Stepf("request #%d entry=%s clientForwardHeader=%v -> status=%d upstream=%q hops=%d err=%v", q, cl.Nodes[entry].ID, fwdHeader, status, stampUp, hops, terr)
			if terr != nil {
				c.Fatalf("C06: request via %s failed without an HTTP answer: %v (hops=%d)", cl.Nodes[entry].ID, terr, hops)
			}
			if hops > 1 {
				c.Fatalf("C06: one client request caused %d inter-node hops", hops)
			}
			anyBelieved := false
			for j := range believes[entry] {
				anyBelieved = anyBelieved || believes[entry][j]
			}
			switch {
			case hasUp[entry] != nil && goaway[entry]:
				// the only local upstream is gone: 502, no hop, and it is deregistered by this attempt
				if hops != 0 || status != http.StatusBadGateway {
					c.Fatalf("C06: entry node %s's local upstream has announced go-away; the request ended status=%d upstream=%q hops=%d, want 502 with no hop", cl.Nodes[entry].ID, status, stampUp, hops)
				}
				goaway[entry], hasUp[entry] = false, nil
			case hasUp[entry] != nil:
				if hops != 0 || status != 200 || stampUp != hasUp[entry].ID {
					c.Fatalf("C06: entry node %s has a local upstream %s but the request ended status=%d upstream=%q hops=%d", cl.Nodes[entry].ID, hasUp[entry].ID, status, stampUp, hops)
				}
			case fwdHeader:
				if hops != 0 || status != http.StatusBadGateway {
					c.Fatalf("C06: an already-forwarded request on %s (no local upstream) ended status=%d hops=%d, want 502 with no hop", cl.Nodes[entry].ID, status, hops)
				}
			case !anyBelieved:
				if hops != 0 || status != http.StatusBadGateway {
					c.Fatalf("C06: %s knows no server for the endpoint but the request ended status=%d hops=%d", cl.Nodes[entry].ID, status, hops)
				}
			default:
				if hops != 1 || hit < 0 || !believes[entry][hit] {
					c.Fatalf("C06: %s should forward to one believed server; hops=%d target=%d", cl.Nodes[entry].ID, hops, hit)
				}
				if hasUp[hit] != nil && goaway[hit] {
					if status != http.StatusBadGateway {
						c.Fatalf("C06: forwarded to %s whose upstream has announced go-away: status=%d upstream=%q, want 502 and no further hop", cl.Nodes[hit].ID, status, stampUp)
					}
					goaway[hit], hasUp[hit] = false, nil
				} else if hasUp[hit] != nil {
					if status != 200 || stampUp != hasUp[hit].ID {
						c.Fatalf("C06: forwarded to %s which has upstream %s, but ended status=%d upstream=%q", cl.Nodes[hit].ID, hasUp[hit].ID, status, stampUp)
					}
				} else if status != http.StatusBadGateway {
					c.Fatalf("C06: forwarded to %s which has no upstream: status=%d (upstream %q), want 502 and no further hop", cl.Nodes[hit].ID, status, stampUp)
				}
			}
		}
	})
}
