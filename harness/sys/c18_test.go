package sys

import (
	"context"
	"fmt"
	"io"
	"net"
	"net/http"
	"strings"
	"sync"
	"testing"
	"time"

	"github.com/andydunstall/piko/server/config"

	"verif/harness/vlib"
)

// LB is a TCP load balancer in front of the nodes' upstream ports that routes
// only to nodes it considers alive (the documented deployment).
type LB struct {
	ln      net.Listener
	mu      sync.Mutex
	targets []string // preference order
	dead    map[string]bool
	Landed  []string // target of every accepted connection, in order
	conns   map[string][]net.Conn
	// noFailover: while the health check lags, a failed dial is not retried on another node
	noFailover bool
}

func NewLB(targets []string) (*LB, error) {
	// on the cluster's own loopback address (see clusterIP)
	ln, err := net.Listen("tcp", sameHost(targets[0]))
	if err != nil {
		return nil, err
	}
	lb := &LB{ln: ln, targets: targets, dead: map[string]bool{}, conns: map[string][]net.Conn{}}
	go func() {
		for {
			c, err := ln.Accept()
			if err != nil {
				return
			}
			go lb.serve(c)
		}
	}()
	return lb, nil
}

func (lb *LB) URL() string { return "http://" + lb.ln.Addr().String() }
func (lb *LB) Close()      { lb.ln.Close() }

// MarkDead stops routing new connections to target after the health-check
// lag; until then connections are still sent to it (and fail if it is gone).
func (lb *LB) MarkDead(target string, lag time.Duration) {
	if lag == 0 {
		lb.mu.Lock()
		lb.dead[target] = true
		lb.mu.Unlock()
		return
	}
	lb.mu.Lock()
	lb.noFailover = true
	lb.mu.Unlock()
	time.AfterFunc(lag, func() {
		lb.mu.Lock()
		lb.dead[target] = true
		lb.noFailover = false
		lb.mu.Unlock()
	})
}

func (lb *LB) serve(c net.Conn) {
	lb.mu.Lock()
	var order []string
	for _, t := range lb.targets {
		if !lb.dead[t] {
			order = append(order, t)
		}
	}
	noFailover := lb.noFailover
	lb.mu.Unlock()
	for _, t := range order {
		up, err := net.DialTimeout("tcp", t, 2*time.Second)
		if err != nil {
			if noFailover {
				break
			}
			continue
		}
		lb.mu.Lock()
		lb.Landed = append(lb.Landed, t)
		lb.conns[t] = append(lb.conns[t], c, up)
		lb.mu.Unlock()
		go func() { _, _ = io.Copy(up, c); up.Close(); c.Close() }()
		_, _ = io.Copy(c, up)
		c.Close()
		up.Close()
		return
	}
	c.Close()
}

// Last returns the target of the most recent connection.
func (lb *LB) Last() string {
	lb.mu.Lock()
	defer lb.mu.Unlock()
	if len(lb.Landed) == 0 {
		return ""
	}
	return lb.Landed[len(lb.Landed)-1]
}

func endpointsOn(n *TNode, ep string) int {
	return n.Srv.ClusterState().LocalEndpointListeners(ep)
}

func TestC18(t *testing.T) {
	vlib.SetRule("C18", "TestC18", "real clusters of 2-4 nodes; 1-4 upstream listeners (distinct endpoints, Go SDK http) connect through a harness TCP load balancer that routes only to live nodes' upstream ports with a drawn node preference; the victim is any node, lost by graceful Shutdown (drawn grace period) or by a crash-like kill, while idle, with upstreams attached, or with slow requests in flight through survivors (and, in a third of the graceful cases, a 6 s request in flight through the victim's own proxy port; in a quarter of the others, with >= 3 nodes, another node has just frozen - it accepts connections on its gossip port and never answers - and the grace period is 2 s); oracle: graceful shutdown returns within the grace period, leaves a left marker and no live endpoint keys in the victim's gossip state and every survivor sees status left as soon as Shutdown returns, and the victim's endpoints are served again by the survivors within 4 s of the shutdown starting, not when the slow request ends; in both manners no listener's Accept fails, every listener is registered on a survivor within the deadline, then requests for its endpoint succeed with the right stamp from every survivor, and in-flight requests entering at survivors end only in 200 or a gateway error; non-trivial = the victim held an upstream and requests enter at a different survivor")
	vlib.Run(t, "C18", func(c *vlib.Case) {
		N := c.Int("nodes", 2, 4)
		grace := time.Duration(c.Int("graceSec", 2, 8)) * time.Second
		// in some graceful shutdowns a slow request (6 s) is in flight through the
		// leaving node's own proxy port: traffic must be withdrawn from the node and
		// recover on the survivors without waiting for that request
		slowThroughVictim := c.Chance("slowRequestThroughVictim", 1, 3)
		if slowThroughVictim {
			grace = 8 * time.Second
		}
		// in some graceful shutdowns of clusters of >= 3 nodes another node has just
		// frozen (it accepts connections on its gossip port and says nothing): the
		// departure must still finish within the grace period
		frozenPeer := !slowThroughVictim && c.Chance("frozenPeer", 1, 4)
		if frozenPeer {
			grace = 2 * time.Second
		}
		// half of the clusters protect the upstream port; listeners then hold tokens
		// without an expiry or expiring long after the scenario
		withAuth := c.Bool("upstreamAuth")
		keys := TestKeys()
		cl, err := StartCluster(N, false, func(i int, conf *config.Config) {
			conf.GracePeriod = grace
			if withAuth {
				conf.Upstream.Auth.HMACSecretKey = string(keys.HMAC)
			}
		})
		if err != nil {
			c.Harnessf("start cluster: %v", err)
		}
		defer cl.Stop()
		if !cl.WaitMembership(Deadline()) {
			Missf(c, "C18: %d nodes did not form a cluster", N)
		}
		victim := cl.Nodes[c.Pick("victim", N)]
		manner := c.OneOf("manner", "shutdown", "kill")
		phase := c.OneOf("phase", "idle", "connected", "inflight")
		c.Header["nodes"], c.Header["victim"], c.Header["manner"], c.Header["phase"], c.Header["grace_s"], c.Header["upstream_auth"] = N, victim.ID, manner, phase, grace.Seconds(), withAuth
		K := c.Int("upstreams", 1, 4)
		type tracked struct {
			u  *Up
			lb *LB
		}
		var ups []tracked
		victimHeld := 0
		for i := 0; i < K; i++ {
			pref := c.Pick("prefNode", N)
			if phase == "idle" && cl.Nodes[pref] == victim {
				pref = (pref + 1) % N
			}
			var targets []string
			for j := 0; j < N; j++ {
				targets = append(targets, cl.Nodes[(pref+j)%N].UpstreamAddr())
			}
			lb, err := NewLB(targets)
			if err != nil {
				c.Harnessf("lb: %v", err)
			}
			defer lb.Close()
			ep := fmt.Sprintf("ep%d", i)
			opts := UpstreamOpts{URL: lb.URL()}
			if withAuth {
				var exp time.Time
				if c.Bool("tokenWithFarExpiry") {
					exp = time.Now().Add(time.Hour)
				}
				opts.Token = MintHS(keys.HMAC, nil, exp)
			}
			u, err := ConnectUpstream(context.Background(), cl.Nodes[pref], fmt.Sprintf("u%d", i), ep, "sdk-http", opts)
			if err != nil {
				c.Fatalf("C18: upstream could not connect through the load balancer: %v", err)
			}
			if phase == "inflight" {
				u.Handler = func(u *Up, w http.ResponseWriter, r *http.Request, rec *Recorded) {
					time.Sleep(150 * time.Millisecond)
					w.WriteHeader(200)
				}
			}
			defer u.Disconnect()
			ups = append(ups, tracked{u, lb})
			if cl.Nodes[pref] == victim {
				victimHeld++
			}
			c.Stepf("upstream u%d for %s lands on %s", i, ep, cl.Nodes[pref].ID)
		}
		// settle before the loss
		ok := Eventually(Deadline(), func() bool {
			for _, x := range cl.Nodes {
				for _, tu := range ups {
					res := Get(x, tu.u.Endpoint, "host", "", nil)
					if res.Err != nil || res.Status != 200 {
						return false
					}
				}
			}
			return true
		})
		if !ok {
			Missf(c, "C18: cluster did not serve every endpoint from every node before the loss")
		}
		var survivors []*TNode
		for _, n := range cl.Nodes {
			if n != victim {
				survivors = append(survivors, n)
			}
		}
		if frozenPeer && manner == "shutdown" && len(survivors) >= 2 {
			f := survivors[c.Pick("frozen", len(survivors))]
			var rest []*TNode
			for _, n := range survivors {
				if n != f {
					rest = append(rest, n)
				}
			}
			survivors = rest
			f.Up = false
			f.Srv.VerifKill()
			cl.HoldPorts(f)
			cl.FreezeGossipPort(f)
			for _, tu := range ups {
				tu.lb.MarkDead(f.UpstreamAddr(), 0)
			}
			c.Stepf("%s froze just before the shutdown of %s (grace period %v)", f.ID, victim.ID, grace)
			c.Class("a-peer-froze-just-before")
		}
		// in-flight load through survivors
		type outcome struct {
			entry  string
			status int
			err    error
			stamp  string
			ep     string
		}
		var outMu sync.Mutex
		var outcomes []outcome
		stop := make(chan struct{})
		var wg sync.WaitGroup
		if phase == "inflight" {
			for g := 0; g < 3; g++ {
				wg.Add(1)
				go func(g int) {
					defer wg.Done()
					for i := 0; ; i++ {
						select {
						case <-stop:
							return
						default:
						}
						entry := survivors[(g+i)%len(survivors)]
						tu := ups[(g+i)%len(ups)]
						res := Get(entry, tu.u.Endpoint, "host", "", nil)
						outMu.Lock()
						outcomes = append(outcomes, outcome{entry.ID, res.Status, res.Err, res.Upstream, tu.u.Endpoint})
						outMu.Unlock()
					}
				}(g)
			}
			time.Sleep(time.Duration(c.Int("warmMs", 20, 200)) * time.Millisecond)
		}
		// the loss
		lag := c.Dur("lbHealthLag", 0, 0, 60*time.Millisecond, 400*time.Millisecond)
		c.Header["lb_health_lag_ms"] = lag.Milliseconds()
		for _, tu := range ups {
			tu.lb.MarkDead(victim.UpstreamAddr(), lag)
		}
		// a leaving node notifies the peers it considers reachable
		reachableBefore := map[string]bool{}
		for _, sv := range survivors {
			if n, ok := victim.Srv.ClusterState().Node(sv.ID); ok && n.Status == "active" {
				reachableBefore[sv.ID] = true
			}
		}
		servedAgain := make(chan time.Duration, 1)
		probing := false
		if slowThroughVictim && manner == "shutdown" && phase != "idle" && len(survivors) > 0 {
			var held []tracked
			for _, tu := range ups {
				if endpointsOn(victim, tu.u.Endpoint) > 0 {
					held = append(held, tu)
				}
			}
			if len(held) > 0 {
				probing = true
				c.Class("slow-request-through-the-leaving-node")
				slow := held[0]
				inner := slow.u.Handler
				slow.u.Handler = func(u *Up, w http.ResponseWriter, r *http.Request, rec *Recorded) {
					if r.Header.Get("X-Verif-Slow") != "" {
						select {
						case <-time.After(6 * time.Second):
						case <-r.Context().Done():
						}
						w.WriteHeader(200)
						return
					}
					if inner != nil {
						inner(u, w, r, rec)
						return
					}
					w.WriteHeader(200)
				}
				go Get(victim, slow.u.Endpoint, "host", "", map[string]string{"X-Verif-Slow": "1"})
				time.Sleep(150 * time.Millisecond)
				c.Stepf("a 6 s request for %s is in flight through %s's proxy port", slow.u.Endpoint, victim.ID)
				start := time.Now()
				go func() {
					ok := Eventually(7*time.Second, func() bool {
						for _, tu := range held {
							if res := Get(survivors[0], tu.u.Endpoint, "host", "", nil); res.Err != nil || res.Status != 200 {
								return false
							}
						}
						return true
					})
					if ok {
						servedAgain <- time.Since(start)
					} else {
						servedAgain <- -1
					}
				}()
			}
		}
		victim.Up = false
		t0 := time.Now()
		if manner == "shutdown" {
			done := make(chan struct{})
			go func() { victim.Srv.Shutdown(); close(done) }()
			select {
			case <-done:
			case <-time.After(grace + Deadline()):
				c.Fatalf("C18: graceful shutdown of %s did not terminate within the grace period %v (+%v)", victim.ID, grace, Deadline())
			}
			took := time.Since(t0)
			c.Stepf("shutdown of %s returned after %v", victim.ID, took)
			if probing {
				d := <-servedAgain
				c.Stepf("endpoints of %s served again through %s after %v", victim.ID, survivors[0].ID, d)
				if d < 0 || d > 4*time.Second {
					Missf(c, "C18: %s shut down gracefully with a 6 s request in flight through its own proxy port; its endpoints were served again by the survivors only after %v (-1ns = not within 7 s): the withdrawal waited for the request instead of preceding it (measured without such a request: 0.1-0.3 s)", victim.ID, d)
				}
			}
			if took > grace+time.Duration(float64(5*time.Second)*TimeScale()) {
				c.Fatalf("C18: graceful shutdown of %s took %v, grace period is %v", victim.ID, took, grace)
			}
			// survivors that were notified see it as left at once
			for _, s := range survivors {
				if !reachableBefore[s.ID] {
					c.Class("survivor-suspected-by-the-leaver")
					continue
				}
				n, known := s.Srv.ClusterState().Node(victim.ID)
				if !known || n.Status != "left" {
					// (a starved failure detector may have suspected the survivor in the very
					// moment of leaving, in which case it is not notified: Missf tells)
					Missf(c, "C18: right after %s's Shutdown returned, %s sees it as %+v (want status left: it notifies up to 3 peers synchronously)", victim.ID, s.ID, n)
				}
			}
			// victim's published state: left marker, no live endpoint keys
			if ns, ok := victim.Srv.VerifGossip().NodeState(victim.ID); ok && !ns.Left {
				c.Fatalf("C18: %s shut down gracefully but its gossip state has no left marker", victim.ID)
			}
			// the upstream handlers withdraw their endpoints on their own goroutines,
			// which Shutdown does not wait for: allow them a moment
			still := ""
			withdrawn := Eventually(Deadline(), func() bool {
				ns, ok := victim.Srv.VerifGossip().NodeState(victim.ID)
				if !ok {
					return true
				}
				for _, e := range ns.Entries {
					if strings.HasPrefix(e.Key, "endpoint:") && !e.Deleted {
						still = e.Key + "=" + e.Value
						return false
					}
				}
				return true
			})
			if !withdrawn {
				Missf(c, "C18: %s shut down gracefully but still advertises %s %v later", victim.ID, still, Deadline())
			}
		} else {
			victim.Srv.VerifKill()
			c.Stepf("%s killed", victim.ID)
		}
		cl.HoldPorts(victim)
		// recovery: every listener registered on a survivor
		recovered := func() bool {
			for _, tu := range ups {
				total := 0
				for _, s := range survivors {
					total += endpointsOn(s, tu.u.Endpoint)
				}
				if total < 1 {
					return false
				}
			}
			return true
		}
		if !Eventually(Deadline(), recovered) {
			c.Class("timing-retry")
			if !Eventually(2*Deadline(), recovered) {
				var missing []string
				for _, tu := range ups {
					total := 0
					for _, s := range survivors {
						total += endpointsOn(s, tu.u.Endpoint)
					}
					if total < 1 {
						missing = append(missing, fmt.Sprintf("%s(accept error: %v)", tu.u.ID, tu.u.AcceptErr.Load()))
					}
				}
				Missf(c, "C18: after %s of %s these upstream listeners did not reconnect to a surviving node within %v: %v", manner, victim.ID, 3*Deadline(), missing)
			}
		}
		for _, tu := range ups {
			if e := tu.u.AcceptErr.Load(); e != nil {
				c.Fatalf("C18: listener of %s returned an error from Accept although nobody closed it: %v", tu.u.ID, e)
			}
		}
		// requests succeed again from every survivor
		served := func() bool {
			for _, s := range survivors {
				for _, tu := range ups {
					res := Get(s, tu.u.Endpoint, "host", "", nil)
					if res.Err != nil || res.Status != 200 || res.Upstream != tu.u.ID {
						return false
					}
				}
			}
			return true
		}
		if !Eventually(Deadline(), served) {
			c.Class("timing-retry")
			if !Eventually(2*Deadline(), served) {
				Missf(c, "C18: after %s of %s requests do not succeed again from every survivor within %v", manner, victim.ID, 3*Deadline())
			}
		}
		c.Stepf("recovered %v after the loss", time.Since(t0))
		close(stop)
		wg.Wait()
		for _, o := range outcomes {
			if o.err != nil {
				c.Fatalf("C18: in-flight request entering at survivor %s failed without an HTTP answer: %v", o.entry, o.err)
			}
			if o.status != 200 && o.status != 502 && o.status != 504 {
				c.Fatalf("C18: in-flight request entering at survivor %s ended with status %d (neither success nor a gateway error)", o.entry, o.status)
			}
		}
		if victimHeld > 0 && len(survivors) > 0 {
			c.NonTrivial()
		}
		c.Class("manner-" + manner)
		c.Class("phase-" + phase)
		vlib.AddExtra("C18", "TestC18", "inflight_requests", float64(len(outcomes)))
	})
}
