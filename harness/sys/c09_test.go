package sys

import (
	"context"
	"encoding/base64"
	"encoding/json"
	"fmt"
	"math/big"
	"net/http"
	"os"
	"path/filepath"
	"strings"
	"testing"
	"time"

	"github.com/golang-jwt/jwt/v5"

	"github.com/andydunstall/piko/pkg/auth"
	"github.com/andydunstall/piko/server/config"

	"verif/harness/vlib"
)

func b64u(b []byte) string { return base64.RawURLEncoding.EncodeToString(b) }

// writeJWKS writes a JWK set with the RSA key (kid rsa1, alg RS256) and the EC key (kid ec1).
func writeJWKS(dir string) (string, error) {
	k := TestKeys()
	jwks := map[string]any{"keys": []any{
		map[string]any{"kty": "RSA", "kid": "rsa1", "use": "sig", "alg": "RS256", "n": b64u(k.RSA.N.Bytes()), "e": b64u(big.NewInt(int64(k.RSA.E)).Bytes())},
		map[string]any{"kty": "EC", "kid": "ec1", "crv": "P-256", "x": b64u(k.EC.X.FillBytes(make([]byte, 32))), "y": b64u(k.EC.Y.FillBytes(make([]byte, 32)))},
	}}
	b, _ := json.Marshal(jwks)
	p := filepath.Join(dir, "jwks.json")
	return p, os.WriteFile(p, b, 0o600)
}

type authConf struct {
	name           string
	hmac, rsa, ec  bool
	jwks           bool
	audience, issu string
}

func (a authConf) families() []string {
	var f []string
	if a.hmac {
		f = append(f, "hmac")
	}
	if a.rsa || a.jwks {
		f = append(f, "rsa")
	}
	if a.ec || a.jwks {
		f = append(f, "ec")
	}
	return f
}

func (a authConf) toConfig(jwksPath string) auth.Config {
	k := TestKeys()
	c := auth.Config{Audience: a.audience, Issuer: a.issu}
	if a.hmac {
		c.HMACSecretKey = string(k.HMAC)
	}
	if a.rsa {
		c.RSAPublicKey = k.RSAPub
	}
	if a.ec {
		c.ECDSAPublicKey = k.ECPub
	}
	if a.jwks {
		c.JWKS.Endpoint = "file://" + jwksPath
	}
	return c
}

var authConfs = []authConf{
	{name: "hmac", hmac: true}, {name: "rsa", rsa: true}, {name: "ecdsa", ec: true},
	{name: "hmac+rsa", hmac: true, rsa: true}, {name: "rsa+ecdsa", rsa: true, ec: true},
	{name: "hmac+rsa+ecdsa", hmac: true, rsa: true, ec: true}, {name: "jwks", jwks: true},
}

// tokenSpec describes a token by construction: a valid base plus defects.
type tokenSpec struct {
	family  string
	alg     string
	kid     bool
	defects []string
	expAt   time.Time // overrides the default expiry (an hour ahead) when set
}

func signWith(method jwt.SigningMethod, key any, kid string, claims jwt.MapClaims) string {
	tk := jwt.NewWithClaims(method, claims)
	if kid != "" {
		tk.Header["kid"] = kid
	}
	s, err := tk.SignedString(key)
	if err != nil {
		panic(fmt.Sprintf("sign %s: %v", method.Alg(), err))
	}
	return s
}

func has(xs []string, x string) bool {
	for _, y := range xs {
		if y == x {
			return true
		}
	}
	return false
}

// buildToken mints the token of a spec for a configuration.
func buildToken(a authConf, sp tokenSpec, endpoints []string) string {
	k := TestKeys()
	claims := jwt.MapClaims{"exp": time.Now().Add(time.Hour).Unix()}
	if !sp.expAt.IsZero() {
		claims["exp"] = sp.expAt.Unix()
	}
	if a.audience != "" {
		claims["aud"], claims["iss"] = a.audience, a.issu
	}
	if len(endpoints) > 0 {
		claims["piko"] = map[string]any{"endpoints": endpoints}
	}
	for _, d := range sp.defects {
		switch d {
		case "expired":
			claims["exp"] = time.Now().Add(-time.Duration(1+len(sp.alg)) * time.Minute).Unix()
		case "just-expired":
			claims["exp"] = time.Now().Add(-2 * time.Second).Unix()
		case "nbf-future":
			claims["nbf"] = time.Now().Add(time.Hour).Unix()
		case "wrong-aud":
			claims["aud"] = "someone-else"
		case "missing-aud":
			delete(claims, "aud")
		case "wrong-iss":
			claims["iss"] = "https://evil.example"
		case "missing-iss":
			delete(claims, "iss")
		}
	}
	methods := map[string]jwt.SigningMethod{"HS256": jwt.SigningMethodHS256, "HS384": jwt.SigningMethodHS384, "HS512": jwt.SigningMethodHS512,
		"RS256": jwt.SigningMethodRS256, "RS384": jwt.SigningMethodRS384, "RS512": jwt.SigningMethodRS512,
		"ES256": jwt.SigningMethodES256}
	var key any
	kid := ""
	switch sp.family {
	case "hmac":
		key = k.HMAC
		if has(sp.defects, "wrong-key") {
			key = k.HMAC2
		}
		if has(sp.defects, "empty-key") {
			key = []byte{}
		}
	case "rsa":
		key = k.RSA
		if has(sp.defects, "wrong-key") {
			key = k.RSA2
		}
		if sp.kid {
			kid = "rsa1"
		}
	case "ec":
		key = k.EC
		if has(sp.defects, "wrong-key") {
			key = k.EC2
		}
		if sp.kid {
			kid = "ec1"
		}
	}
	var s string
	switch {
	case has(sp.defects, "alg-none"):
		tk := jwt.NewWithClaims(jwt.SigningMethodNone, claims)
		if kid != "" {
			tk.Header["kid"] = kid
		}
		s, _ = tk.SignedString(jwt.UnsafeAllowNoneSignatureType)
	case has(sp.defects, "hs-with-rsa-public-pem"):
		s = signWith(jwt.SigningMethodHS256, []byte(k.RSAPub), kid, claims)
	case has(sp.defects, "hs-with-ec-public-pem"):
		s = signWith(jwt.SigningMethodHS256, []byte(k.ECPub), kid, claims)
	default:
		s = signWith(methods[sp.alg], key, kid, claims)
	}
	parts := strings.Split(s, ".")
	for _, d := range sp.defects {
		switch d {
		case "tamper-payload":
			pl, _ := base64.RawURLEncoding.DecodeString(parts[1])
			var m map[string]any
			_ = json.Unmarshal(pl, &m)
			m["exp"] = time.Now().Add(48 * time.Hour).Unix()
			m["piko"] = map[string]any{"endpoints": []string{}}
			nb, _ := json.Marshal(m)
			parts[1] = b64u(nb)
		case "tamper-header":
			parts[0] = b64u([]byte(`{"alg":"` + sp.alg + `","typ":"JWT","x":1}`))
		case "truncate-signature":
			if len(parts[2]) > 4 {
				parts[2] = parts[2][:len(parts[2])-4]
			}
		case "empty-signature":
			parts[2] = ""
		case "flip-signature":
			if len(parts[2]) > 2 {
				b := []byte(parts[2])
				if b[1] == 'A' {
					b[1] = 'B'
				} else {
					b[1] = 'A'
				}
				parts[2] = string(b)
			}
		}
	}
	return strings.Join(parts, ".")
}

var famAlgs = map[string][]string{"hmac": {"HS256", "HS384", "HS512"}, "rsa": {"RS256", "RS384", "RS512"}, "ec": {"ES256"}}

// drawToken draws a spec: a base that the configuration accepts, plus 0-2 defects.
func drawToken(c *vlib.Case, a authConf, forceValid bool) tokenSpec {
	fams := a.families()
	sp := tokenSpec{family: fams[c.Pick("family", len(fams))]}
	algs := famAlgs[sp.family]
	sp.alg = algs[c.Pick("alg", len(algs))]
	if a.jwks {
		sp.kid = c.Bool("kid")
		if sp.family == "rsa" && sp.kid {
			sp.alg = "RS256" // the JWK pins its alg; other RS algs with this kid are refused (over-rejection, not claimed)
		}
	}
	if forceValid {
		return sp
	}
	defects := []string{"alg-none", "wrong-key", "tamper-payload", "tamper-header", "truncate-signature", "empty-signature", "flip-signature", "expired", "just-expired", "nbf-future", "hs-with-rsa-public-pem", "hs-with-ec-public-pem", "foreign-family"}
	if a.audience != "" {
		defects = append(defects, "wrong-aud", "missing-aud", "wrong-iss", "missing-iss")
	}
	if sp.family == "hmac" {
		defects = append(defects, "empty-key")
	}
	n := c.Weighted("defects", []string{"0", "1", "2"}, []int{2, 6, 2})
	for i := 0; i < int(n[0]-'0'); i++ {
		d := defects[c.Pick("defect", len(defects))]
		if d == "foreign-family" {
			// a correctly signed token of a key family this port is NOT configured with
			var other []string
			for _, f := range []string{"hmac", "rsa", "ec"} {
				if !has(fams, f) {
					other = append(other, f)
				}
			}
			if len(other) == 0 {
				continue
			}
			sp.family = other[c.Pick("otherFamily", len(other))]
			sp.alg = famAlgs[sp.family][c.Pick("otherAlg", len(famAlgs[sp.family]))]
			sp.kid = false
			if sp.family == "hmac" && c.Bool("emptyHmacKey") {
				// the classic: an HS token signed with the empty key on a port that has no HMAC secret
				sp.defects = append(sp.defects, "empty-key")
			}
		}
		if !has(sp.defects, d) {
			sp.defects = append(sp.defects, d)
		}
	}
	return sp
}

type routeReq struct {
	method, path string
}

func fillParams(p string) string {
	segs := strings.Split(p, "/")
	for i, s := range segs {
		if strings.HasPrefix(s, ":") {
			segs[i] = "e1"
		}
		if strings.HasPrefix(s, "*") {
			segs[i] = "x"
		}
	}
	return strings.Join(segs, "/")
}

func TestC09(t *testing.T) {
	vlib.SetRule("C09", "TestC09", "per case one protected port (proxy / upstream / admin) of a real 2-node cluster under one of 7 key configurations (HMAC, RSA, ECDSA, pairs, all three, JWKS file) with or without audience+issuer; the port's gin route table is enumerated through the shim (plus no-route paths, other methods and admin ?forward=) and each request carries a token built from a valid base with 0-2 defects (alg none, wrong key, HS256 signed with the RSA/EC public PEM, key family not configured, tampered header/payload/signature, expired, nbf in the future, wrong/missing aud/iss) placed in Authorization and/or x-piko-authorization (valid shadowed by invalid and vice versa), with Bearer / Basic / empty schemes, or no header, optionally naming a tenant (none is configured); in an eighth of the cases one token is presented while valid and again, unchanged, after its expiry (with disconnect-on-expiry enabled or disabled); oracle: validity is known by construction; every invalid request gets 401 with nothing but the error object in the body, and the upstream / registry / peer admin behind the route does not observe it; non-trivial = token with exactly one defect, or a valid token shadowed by an invalid one")
	vlib.Run(t, "C09", func(c *vlib.Case) {
		dir, err := os.MkdirTemp("", "verif-c09-")
		if err != nil {
			c.Harnessf("%v", err)
		}
		defer os.RemoveAll(dir)
		jwksPath, err := writeJWKS(dir)
		if err != nil {
			c.Harnessf("%v", err)
		}
		a := authConfs[c.Pick("keyConf", len(authConfs))]
		if c.Bool("audIss") {
			a.audience, a.issu = "piko-aud", "https://issuer.example"
		}
		port := c.OneOf("port", "proxy", "upstream", "admin")
		c.Header["key_conf"], c.Header["aud_iss"], c.Header["port"] = a.name, a.audience != "", port
		// the option that keeps connections open past the expiry of their token must not
		// make the expiry itself go away
		keepPastExpiry := c.Bool("disableDisconnectOnExpiry")
		c.Header["disable_disconnect_on_expiry"] = keepPastExpiry
		cl, err := StartCluster(2, false, func(i int, conf *config.Config) {
			ac := a.toConfig(jwksPath)
			ac.DisableDisconnectOnExpiry = keepPastExpiry
			switch port {
			case "proxy":
				if i == 0 {
					conf.Proxy.Auth = ac
				}
			case "upstream":
				if i == 0 {
					conf.Upstream.Auth = ac
				}
			case "admin":
				if i == 0 {
					conf.Admin.Auth = ac
				}
			}
		})
		if err != nil {
			c.Harnessf("start cluster: %v", err)
		}
		defer cl.Stop()
		n0 := cl.Nodes[0]
		var up *Up
		if port == "proxy" {
			up, err = ConnectUpstream(context.Background(), n0, "u0", "e1", "sdk-http", UpstreamOpts{})
			if err != nil {
				c.Harnessf("connect: %v", err)
			}
			defer up.Disconnect()
		}
		if !cl.WaitMembership(Deadline()) {
			Missf(c, "C09: cluster did not form")
		}
		if up != nil && !Eventually(Deadline(), func() bool { return n0.Srv.ClusterState().LocalEndpointListeners("e1") == 1 }) {
			c.Harnessf("upstream registration not visible")
		}
		// enumerate the port's route table
		var routes []routeReq
		var addr string
		switch port {
		case "proxy":
			addr = n0.ProxyAddr()
			for _, r := range n0.Srv.VerifProxy().VerifRoutes() {
				routes = append(routes, routeReq{r.Method, fillParams(r.Path)})
			}
			routes = append(routes, routeReq{"GET", "/"}, routeReq{"POST", "/any/path?x=1"}, routeReq{"DELETE", "/_piko/unknown"}, routeReq{"PUT", "/_piko/v1/tcp/e1"}, routeReq{"OPTIONS", "/"})
		case "upstream":
			addr = n0.UpstreamAddr()
			for _, r := range n0.Srv.VerifUpstream().VerifRoutes() {
				routes = append(routes, routeReq{r.Method, fillParams(r.Path)})
			}
			routes = append(routes, routeReq{"GET", "/"}, routeReq{"POST", "/piko/v1/upstream/e1"}, routeReq{"GET", "/piko/v1/upstream/e1/extra"})
		case "admin":
			addr = n0.AdminAddr()
			for _, r := range n0.Srv.VerifAdmin().VerifRoutes() {
				if strings.Contains(r.Path, "/debug/pprof/profile") || strings.Contains(r.Path, "/debug/pprof/trace") {
					continue // these block for seconds when they do run; the other pprof routes cover the group
				}
				routes = append(routes, routeReq{r.Method, fillParams(r.Path)})
				routes = append(routes, routeReq{r.Method, fillParams(r.Path) + "?forward=n1"})
			}
			routes = append(routes, routeReq{"GET", "/nope"}, routeReq{"GET", "/nope?forward=n1"}, routeReq{"POST", "/health"}, routeReq{"GET", "/status/cluster/nodes?forward=unknown"})
		}
		c.Header["routes"] = len(routes)
		if len(routes) < 3 {
			c.Harnessf("route table of %s has only %d routes", port, len(routes))
		}
		reachedValid := 0
		for q, nq := 0, c.Int("pairs", 8, 40); q < nq; q++ {
			r := routes[c.Pick("route", len(routes))]
			form := c.Weighted("form", []string{"authorization", "x-piko", "shadow-invalid-over-valid", "shadow-valid-over-invalid", "basic", "empty", "none", "no-space"}, []int{8, 5, 3, 2, 1, 1, 1, 1})
			sp := drawToken(c, a, false)
			tok := buildToken(a, sp, nil)
			valid := len(sp.defects) == 0
			nontrivial := len(sp.defects) == 1
			req, _ := http.NewRequest(r.method, "http://"+addr+r.path, nil)
			req.Host = "e1.piko.test"
			switch form {
			case "authorization":
				req.Header.Set("Authorization", "Bearer "+tok)
			case "x-piko":
				req.Header.Set("x-piko-authorization", "Bearer "+tok)
			case "shadow-invalid-over-valid":
				good := buildToken(a, drawToken(c, a, true), nil)
				bad := tok
				if valid {
					bad = buildToken(a, tokenSpec{family: sp.family, alg: sp.alg, kid: sp.kid, defects: []string{"wrong-key"}}, nil)
				}
				req.Header.Set("Authorization", "Bearer "+good)
				req.Header.Set("x-piko-authorization", "Bearer "+bad)
				valid, nontrivial = false, true
			case "shadow-valid-over-invalid":
				good := buildToken(a, drawToken(c, a, true), nil)
				req.Header.Set("Authorization", "Bearer "+buildToken(a, tokenSpec{family: sp.family, alg: sp.alg, kid: sp.kid, defects: []string{"wrong-key"}}, nil))
				req.Header.Set("x-piko-authorization", "Bearer "+good)
				valid = true
			case "basic":
				req.Header.Set("Authorization", "Basic "+buildToken(a, drawToken(c, a, true), nil))
				valid = false
			case "empty":
				req.Header.Set("Authorization", "Bearer ")
				valid = false
			case "none":
				valid = false
			case "no-space":
				req.Header.Set("Authorization", "Bearer"+buildToken(a, drawToken(c, a, true), nil))
				valid = false
			}
			// none of these ports has tenants: naming one makes any credential invalid
			if c.Chance("namesTenant", 1, 8) {
				req.Header.Set("x-piko-tenant-id", c.OneOf("tenantName", "t0", "default", "n0"))
				valid = false
				c.Class("names-unknown-tenant")
			}
			if nontrivial {
				c.NonTrivial()
			}
			var servedBefore int64
			if up != nil {
				servedBefore = up.Served.Load()
			}
			regBefore := n0.Srv.ClusterState().LocalEndpointListeners("e1")
			res := DoWith(KeepAliveClient, req)
			c.Stepf("%s %s form=%s token=%+v valid=%v -> %d", r.method, r.path, form, sp, valid, res.Status)
			if res.Err != nil {
				c.Fatalf("C09: %s %s on the %s port: no answer: %v", r.method, r.path, port, res.Err)
			}
			if !valid {
				if res.Status != 401 {
					c.Fatalf("C09: %s port (%s%s), %s %s with an INVALID credential (form %s, token %+v) answered %d, want 401", port, a.name, map[bool]string{true: "+aud/iss", false: ""}[a.audience != ""], r.method, r.path, form, sp, res.Status)
				}
				// the refusal is the whole answer: nothing a handler wrote may follow it
				if len(res.Body) > 0 && r.method != "HEAD" {
					var obj map[string]any
					if err := json.Unmarshal(res.Body, &obj); err != nil {
						c.Fatalf("C09: %s %s with an INVALID credential (form %s, token %+v) answered 401 with a body that is not the bare error object (a handler ran after the refusal?): %q", r.method, r.path, form, sp, res.Body)
					}
				}
				if up != nil && up.Served.Load() != servedBefore {
					c.Fatalf("C09: an unauthenticated request (%s %s, form %s, token %+v) reached the upstream", r.method, r.path, form, sp)
				}
				if n0.Srv.ClusterState().LocalEndpointListeners("e1") != regBefore {
					c.Fatalf("C09: an unauthenticated request changed the upstream registry")
				}
				c.Class("invalid-" + form)
				for _, d := range sp.defects {
					c.Class("defect-" + d)
				}
			} else if res.Status != 401 {
				reachedValid++
				c.Class("valid-reached-handler")
			} else {
				c.Class("valid-refused(over-rejection,not-claimed)")
			}
		}
		// a token presented while valid and again, unchanged, after it has expired
		if len(routes) > 0 && c.Chance("sameTokenAcrossExpiry", 1, 8) {
			r := routes[c.Pick("expiryRoute", len(routes))]
			sp := drawToken(c, a, true)
			exp := time.Now().Add(2200 * time.Millisecond).Truncate(time.Second)
			if time.Until(exp) < 1200*time.Millisecond {
				exp = exp.Add(time.Second)
			}
			sp.expAt = exp
			tok := buildToken(a, sp, nil)
			send := func() *HTTPResult {
				req, _ := http.NewRequest(r.method, "http://"+addr+r.path, nil)
				req.Host = "e1.piko.test"
				req.Header.Set("Authorization", "Bearer "+tok)
				return DoWith(KeepAliveClient, req)
			}
			first := send()
			time.Sleep(time.Until(exp.Add(1200 * time.Millisecond)))
			var servedBefore int64
			if up != nil {
				servedBefore = up.Served.Load()
			}
			second := send()
			c.Stepf("%s %s with a token expiring at %v: %d while valid, %d afterwards (disable_disconnect_on_expiry=%v)", r.method, r.path, exp.Format("15:04:05"), first.Status, second.Status, keepPastExpiry)
			if second.Err != nil {
				c.Fatalf("C09: no answer: %v", second.Err)
			}
			if second.Status != 401 {
				c.Fatalf("C09: %s port, %s %s: a token accepted while valid (status %d) was still accepted %v after its expiry (status %d; disable_disconnect_on_expiry=%v)", port, r.method, r.path, first.Status, time.Since(exp).Round(time.Millisecond), second.Status, keepPastExpiry)
			}
			if up != nil && up.Served.Load() != servedBefore {
				c.Fatalf("C09: a request with an expired token reached the upstream")
			}
			c.Class("same-token-across-expiry")
		}
		vlib.AddExtra("C09", "TestC09", "valid_tokens_that_reached_a_handler", float64(reachedValid))
	})
}
