// Package sys is the SYS engine: generated scenarios against in-process
// clusters of real piko servers on loopback, real client listeners, dialers,
// agents and forwarders.
package sys

import (
	"bufio"
	"context"
	"errors"
	"fmt"
	"io"
	"net"
	"net/http"
	"net/http/httptest"
	"net/url"
	"os"
	"strconv"
	"strings"
	"sync"
	"sync/atomic"
	"time"

	agentconfig "github.com/andydunstall/piko/agent/config"
	"github.com/andydunstall/piko/agent/reverseproxy"
	"github.com/andydunstall/piko/agent/tcpproxy"
	"github.com/andydunstall/piko/client"
	"github.com/andydunstall/piko/pkg/log"
	"github.com/andydunstall/piko/server"
	"github.com/andydunstall/piko/server/config"

	"verif/harness/vlib"
)

// TimeScale stretches every deadline (VERIF_TIME_SCALE).
func TimeScale() float64 {
	if v, err := strconv.ParseFloat(os.Getenv("VERIF_TIME_SCALE"), 64); err == nil && v > 0 {
		return v
	}
	return 1
}

// Deadline is the default liveness deadline.
func Deadline() time.Duration { return time.Duration(float64(20*time.Second) * TimeScale()) }

// Eventually polls f until it returns true or the deadline passes.
func Eventually(d time.Duration, f func() bool) bool {
	startLatencyMonitor()
	for ext := 0; ; ext++ {
		t0 := time.Now()
		end := t0.Add(d)
		for {
			if f() {
				return true
			}
			if time.Now().After(end) {
				break
			}
			time.Sleep(5 * time.Millisecond)
		}
		// The deadline has passed. If this process was not given the CPU meanwhile
		// (see Missf) the wait proves nothing yet: wait again, at most 6 more times.
		if ext >= 6 || !starved(t0) {
			return false
		}
	}
}

// starved reports whether late wake-ups since t0 add up to a quarter of the
// time, or one wake-up was a second late.
func starved(t0 time.Time) bool {
	worst, _, lost := Lateness(t0)
	return lost >= 0.25 || worst >= time.Second
}

// The scheduling-latency monitor: a goroutine that sleeps 10 ms at a time and
// records how late it wakes up. Liveness oracles use it to tell "piko did not
// get there" from "this process was not given the CPU" (a loaded machine).
type latSample struct {
	at   time.Time
	late time.Duration
}

var latMon struct {
	once sync.Once
	mu   sync.Mutex
	ring []latSample
}

func startLatencyMonitor() {
	latMon.once.Do(func() {
		go func() {
			const tick = 10 * time.Millisecond
			for {
				t0 := time.Now()
				time.Sleep(tick)
				late := time.Since(t0) - tick
				latMon.mu.Lock()
				latMon.ring = append(latMon.ring, latSample{t0, late})
				if len(latMon.ring) > 20000 {
					latMon.ring = append([]latSample(nil), latMon.ring[10000:]...)
				}
				latMon.mu.Unlock()
			}
		}()
	})
}

// Lateness reports, for the wake-ups since the given time, the worst and the
// mean lateness and the fraction of the wall time that was lost to late wake-ups.
func Lateness(since time.Time) (worst, mean time.Duration, lost float64) {
	latMon.mu.Lock()
	defer latMon.mu.Unlock()
	var sum time.Duration
	n := 0
	for _, s := range latMon.ring {
		if s.at.Before(since) {
			continue
		}
		n++
		sum += s.late
		if s.late > worst {
			worst = s.late
		}
	}
	if n == 0 {
		return 0, 0, 0
	}
	return worst, sum / time.Duration(n), float64(sum) / float64(time.Since(since))
}

// Views describes every live node's view of every other node (for failure messages).
func (cl *TCluster) Views() string {
	var b strings.Builder
	for _, x := range cl.Nodes {
		if !x.Up {
			fmt.Fprintf(&b, "%s: down; ", x.ID)
			continue
		}
		fmt.Fprintf(&b, "%s sees [", x.ID)
		for _, n := range x.Srv.ClusterState().Nodes() {
			fmt.Fprintf(&b, "%s:%s:%v ", n.ID, n.Status, n.Endpoints)
		}
		b.WriteString("]; ")
	}
	return b.String()
}

// Missf reports a missed liveness deadline. If this process was not given the CPU
// during the wait (late wake-ups add up to a quarter of the time, or one was a
// second late) the miss says nothing about piko: it is a harness error (the
// check is undecided, exit 2). Otherwise it is a violation.
func Missf(c *vlib.Case, format string, args ...any) {
	worst, mean, lost := Lateness(time.Now().Add(-3 * Deadline()))
	msg := fmt.Sprintf(format, args...) + fmt.Sprintf(" [scheduling lateness of this process in the last %v: worst %v, mean %v, %.0f%% of the time lost]", 3*Deadline(), worst.Round(time.Millisecond), mean.Round(time.Microsecond), 100*lost)
	if starved(time.Now().Add(-3 * Deadline())) {
		c.Harnessf("starved machine, liveness deadline inconclusive: %s", msg)
	}
	c.Fatalf("%s", msg)
}

// TNode is one real server node.
type TNode struct {
	Idx  int
	Gen  int // cluster generation (unique per cluster in this process)
	ID   string
	Srv  *server.Server
	Conf *config.Config
	Up   bool
}

func (n *TNode) ProxyAddr() string    { return n.Conf.Proxy.AdvertiseAddr }
func (n *TNode) UpstreamAddr() string { return n.Conf.Upstream.AdvertiseAddr }
func (n *TNode) AdminAddr() string    { return n.Conf.Admin.AdvertiseAddr }
func (n *TNode) GossipAddr() string   { return n.Conf.Cluster.Gossip.AdvertiseAddr }

// TCluster is a set of real nodes in this process.
type TCluster struct {
	Nodes   []*TNode
	Gen     int
	holders []net.Listener
}

var clusterGen atomic.Int64

// HoldPorts re-binds the addresses of a dead node with listeners that close
// every connection at once, so that no other process picks the freed ports up
// and answers in the dead node's place.
// FreezeGossipPort makes a killed node look frozen rather than dead to its peers:
// its gossip TCP port accepts connections and then says nothing (a stopped or
// wedged process, a one-way partition); its UDP port swallows packets.
func (cl *TCluster) FreezeGossipPort(n *TNode) {
	for attempt := 0; attempt < 40; attempt++ {
		ln, err := net.Listen("tcp", n.GossipAddr())
		if err != nil {
			time.Sleep(5 * time.Millisecond)
			continue
		}
		cl.holders = append(cl.holders, ln)
		go func() {
			var held []net.Conn
			defer func() {
				for _, c := range held {
					c.Close()
				}
			}()
			for {
				c, err := ln.Accept()
				if err != nil {
					return
				}
				held = append(held, c) // never read, never answered
			}
		}()
		break
	}
	if pc, err := net.ListenPacket("udp", n.GossipAddr()); err == nil {
		cl.holders = append(cl.holders, packetCloser{pc})
	}
}

type packetCloser struct{ net.PacketConn }

func (p packetCloser) Accept() (net.Conn, error) { return nil, net.ErrClosed }
func (p packetCloser) Addr() net.Addr            { return p.PacketConn.LocalAddr() }

func (cl *TCluster) HoldPorts(n *TNode) {
	for _, addr := range []string{n.ProxyAddr(), n.UpstreamAddr(), n.AdminAddr()} {
		for attempt := 0; attempt < 20; attempt++ {
			ln, err := net.Listen("tcp", addr)
			if err != nil {
				time.Sleep(5 * time.Millisecond)
				continue
			}
			cl.holders = append(cl.holders, ln)
			go func() {
				for {
					c, err := ln.Accept()
					if err != nil {
						return
					}
					if tc, ok := c.(*net.TCPConn); ok {
						_ = tc.SetLinger(0)
					}
					c.Close()
				}
			}()
			break
		}
	}
}

// clusterIP gives every cluster of every test process its own loopback address
// (all of 127/8 is local on Linux). Port numbers are then private to the cluster:
// nothing that outlives a cluster - a node of another shard that is still
// shutting down, an upstream listener that is still reconnecting - can reach a
// later cluster through a reused port number, and node ids may repeat across
// clusters without one cluster's gossip being applied by another.
func clusterIP(gen int) string {
	return fmt.Sprintf("127.%d.%d.%d", 16+os.Getpid()%224, (gen/254)%256, 1+gen%254)
}

// sameHost returns "<host of addr>:0": a listen address on the same loopback
// address as addr, with a port of the kernel's choosing.
func sameHost(addr string) string {
	host, _, err := net.SplitHostPort(addr)
	if err != nil {
		return "127.0.0.1:0"
	}
	return net.JoinHostPort(host, "0")
}

// NewNodeConf is the base configuration of a test node.
func NewNodeConf(id string, join []string, ip string) *config.Config {
	conf := config.Default()
	conf.Proxy.BindAddr = ip + ":0"
	conf.Upstream.BindAddr = ip + ":0"
	conf.Admin.BindAddr = ip + ":0"
	conf.Cluster.NodeID = id
	conf.Cluster.Join = join
	conf.Cluster.AbortIfJoinFails = false
	conf.Cluster.JoinTimeout = 2 * time.Second
	conf.Cluster.Gossip.BindAddr = ip + ":0"
	conf.Cluster.Gossip.Interval = 100 * time.Millisecond
	conf.Proxy.AccessLog.Disable = true
	conf.GracePeriod = 10 * time.Second
	return conf
}

// StartCluster starts n nodes, each joining all earlier ones (unless noJoin).
func StartCluster(n int, noJoin bool, mod func(i int, c *config.Config)) (*TCluster, error) {
	var cl *TCluster
	var err error
	// the gossip UDP socket is bound to the port number the TCP listener got,
	// which another process may hold: retry
	for attempt := 0; attempt < 24; attempt++ {
		cl, err = startCluster(n, noJoin, mod)
		if err == nil || !strings.Contains(err.Error(), "address already in use") {
			return cl, err
		}
		// a port clash, or the ephemeral port range is exhausted for a moment
		time.Sleep(time.Duration(20*(attempt+1)) * time.Millisecond)
	}
	return cl, err
}

func startCluster(n int, noJoin bool, mod func(i int, c *config.Config)) (*TCluster, error) {
	startLatencyMonitor()
	cl := &TCluster{Gen: int(clusterGen.Add(1))}
	for i := 0; i < n; i++ {
		var join []string
		if !noJoin {
			for _, p := range cl.Nodes {
				join = append(join, p.GossipAddr())
			}
		}
		conf := NewNodeConf(fmt.Sprintf("n%d", i), join, clusterIP(cl.Gen))
		if mod != nil {
			mod(i, conf)
		}
		srv, err := server.NewServer(conf, log.NewNopLogger())
		if err != nil {
			cl.Stop()
			return nil, fmt.Errorf("new server %d: %w", i, err)
		}
		if err := srv.Start(); err != nil {
			cl.Stop()
			return nil, fmt.Errorf("start server %d: %w", i, err)
		}
		cl.Nodes = append(cl.Nodes, &TNode{Idx: i, Gen: cl.Gen, ID: conf.Cluster.NodeID, Srv: srv, Conf: conf, Up: true})
	}
	return cl, nil
}

// Stop shuts every running node down (in parallel).
func (cl *TCluster) Stop() {
	var wg sync.WaitGroup
	for _, n := range cl.Nodes {
		if n.Up {
			n.Up = false
			wg.Add(1)
			go func(n *TNode) {
				defer wg.Done()
				n.Srv.Shutdown()
			}(n)
		}
	}
	wg.Wait()
	for _, h := range cl.holders {
		h.Close()
	}
	cl.holders = nil
}

// WaitRoutable waits until from's routing table lists to as active with upstreams for ep.
func WaitRoutable(from, to *TNode, ep string, d time.Duration) bool {
	return Eventually(d, func() bool {
		n, ok := from.Srv.ClusterState().Node(to.ID)
		return ok && n.Status == "active" && n.Endpoints[ep] > 0
	})
}

// Live returns the running nodes.
func (cl *TCluster) Live() []*TNode {
	var l []*TNode
	for _, n := range cl.Nodes {
		if n.Up {
			l = append(l, n)
		}
	}
	return l
}

// WaitMembership waits until every live node lists every live node as active.
func (cl *TCluster) WaitMembership(d time.Duration) bool {
	return Eventually(d, func() bool {
		for _, a := range cl.Live() {
			for _, b := range cl.Live() {
				if a == b {
					continue
				}
				n, ok := a.Srv.ClusterState().Node(b.ID)
				if !ok || n.Status != "active" {
					return false
				}
			}
		}
		return true
	})
}

// ---------------------------------------------------------------------------
// stamping upstreams

// Stamp headers written by every upstream.
const (
	HdrEndpoint = "X-Stamp-Endpoint"
	HdrUpstream = "X-Stamp-Upstream"
)

// Recorded is what an HTTP upstream saw.
type Recorded struct {
	Method     string
	RequestURI string
	Host       string
	Header     http.Header
	Body       []byte
	Proto      string
}

// Up is one upstream service connected to a node.
type Up struct {
	ID       string
	Endpoint string
	Kind     string // sdk-http, agent-http, sdk-tcp, agent-tcp
	Node     *TNode

	ln       client.Listener
	httpSrv  *http.Server
	local    *httptest.Server
	localTCP net.Listener
	agentRP  *reverseproxy.Server
	agentTCP *tcpproxy.Server

	// ConnectStart/DisconnectEnd bound the time the upstream can have served.
	ConnectStart  time.Time
	DisconnectEnd time.Time
	gone          atomic.Bool

	Served     atomic.Int64
	TCPClosed  atomic.Int64
	TCPHandler func(c net.Conn)                                                   // optional override of the stamp+echo behaviour
	Handler    func(u *Up, w http.ResponseWriter, r *http.Request, rec *Recorded) // optional override
	mu         sync.Mutex
	Seen       []*Recorded
	AcceptErr  atomic.Value // error returned by Accept on a listener nobody closed
	serveDone  chan struct{}
}

func (u *Up) stampHandler() http.Handler {
	return http.HandlerFunc(func(w http.ResponseWriter, r *http.Request) {
		body, _ := io.ReadAll(r.Body)
		rec := &Recorded{Method: r.Method, RequestURI: r.RequestURI, Host: r.Host, Header: r.Header.Clone(), Body: body, Proto: r.Proto}
		u.mu.Lock()
		u.Seen = append(u.Seen, rec)
		u.mu.Unlock()
		u.Served.Add(1)
		w.Header().Set(HdrEndpoint, u.Endpoint)
		w.Header().Set(HdrUpstream, u.ID)
		if u.Handler != nil {
			u.Handler(u, w, r, rec)
			return
		}
		w.WriteHeader(200)
		_, _ = w.Write([]byte("ok " + u.ID))
	})
}

// LastSeen returns the most recent request recorded by the upstream.
func (u *Up) LastSeen() *Recorded {
	u.mu.Lock()
	defer u.mu.Unlock()
	if len(u.Seen) == 0 {
		return nil
	}
	return u.Seen[len(u.Seen)-1]
}

func (u *Up) serveTCPConn(c net.Conn) {
	defer u.TCPClosed.Add(1)
	defer c.Close()
	u.Served.Add(1)
	if u.TCPHandler != nil {
		u.TCPHandler(c)
		return
	}
	if _, err := fmt.Fprintf(c, "STAMP %s %s\n", u.Endpoint, u.ID); err != nil {
		return
	}
	_, _ = io.Copy(c, c)
}

func (u *Up) acceptLoop(ln net.Listener, mine bool) {
	defer close(u.serveDone)
	for {
		c, err := ln.Accept()
		if err != nil {
			if mine && !u.gone.Load() {
				u.AcceptErr.Store(err)
			}
			return
		}
		go u.serveTCPConn(c)
	}
}

// UpstreamOpts tune how an upstream connects.
type UpstreamOpts struct {
	URL      string // overrides the node's upstream URL (e.g. a load balancer or relay)
	Token    string
	TenantID string
	// AccessLog configures the agent's access log (agent kinds only); nil = disabled.
	AccessLog *log.AccessLogConfig
}

// ConnectUpstream connects a new stamping upstream of the given kind.
func ConnectUpstream(ctx context.Context, node *TNode, id, endpoint, kind string, o UpstreamOpts) (*Up, error) {
	// the id is unique per cluster in this process: a stamp from an upstream that
	// leaked from an earlier case is recognisable as such
	id = fmt.Sprintf("%s@g%d", id, node.Gen)
	u := &Up{ID: id, Endpoint: endpoint, Kind: kind, Node: node, serveDone: make(chan struct{})}
	target := "http://" + node.UpstreamAddr()
	if o.URL != "" {
		target = o.URL
	}
	pu, _ := url.Parse(target)
	cu := &client.Upstream{URL: pu, Token: o.Token, TenantID: o.TenantID, MinReconnectBackoff: 10 * time.Millisecond, MaxReconnectBackoff: 200 * time.Millisecond}
	u.ConnectStart = time.Now()
	// as the piko agent does, the context given to Listen only bounds the initial
	// connect and is released afterwards: the listener must not depend on it later
	lctx, lcancel := context.WithTimeout(ctx, 3*Deadline())
	ln, err := cu.Listen(lctx, endpoint)
	lcancel()
	if err != nil {
		return nil, err
	}
	u.ln = ln
	switch kind {
	case "sdk-http":
		u.httpSrv = &http.Server{Handler: u.stampHandler()}
		go func() {
			defer close(u.serveDone)
			err := u.httpSrv.Serve(ln)
			if err != nil && !u.gone.Load() && !errors.Is(err, http.ErrServerClosed) {
				u.AcceptErr.Store(err)
			}
		}()
	case "agent-http":
		u.local = httptest.NewServer(u.stampHandler())
		conf := agentconfig.ListenerConfig{EndpointID: endpoint, Addr: u.local.URL, Protocol: agentconfig.ListenerProtocolHTTP, Timeout: 15 * time.Second}
		conf.AccessLog.Disable, conf.AccessLog.Level = true, "info"
		if o.AccessLog != nil {
			conf.AccessLog = *o.AccessLog
		}
		u.agentRP = reverseproxy.NewServer(conf, reverseproxy.NewMetrics("verif"), log.NewNopLogger())
		go func() {
			defer close(u.serveDone)
			err := u.agentRP.Serve(ln)
			if err != nil && !u.gone.Load() {
				u.AcceptErr.Store(err)
			}
		}()
	case "sdk-tcp":
		go u.acceptLoop(ln, true)
	case "agent-tcp":
		l, err := net.Listen("tcp", "127.0.0.1:0")
		if err != nil {
			_ = ln.Shutdown()
			return nil, err
		}
		u.localTCP = l
		local := make(chan struct{})
		go func() {
			defer close(local)
			for {
				c, err := l.Accept()
				if err != nil {
					return
				}
				go u.serveTCPConn(c)
			}
		}()
		conf := agentconfig.ListenerConfig{EndpointID: endpoint, Addr: l.Addr().String(), Protocol: agentconfig.ListenerProtocolTCP, Timeout: 15 * time.Second}
		conf.AccessLog.Disable, conf.AccessLog.Level = true, "info"
		u.agentTCP = tcpproxy.NewServer(conf, log.NewNopLogger())
		go func() {
			defer close(u.serveDone)
			err := u.agentTCP.Serve(ln)
			if err != nil && !u.gone.Load() {
				u.AcceptErr.Store(err)
			}
		}()
	default:
		_ = ln.Shutdown()
		return nil, fmt.Errorf("unknown upstream kind %s", kind)
	}
	return u, nil
}

// IsHTTP reports whether the upstream speaks HTTP.
func (u *Up) IsHTTP() bool { return strings.HasSuffix(u.Kind, "http") }

// Disconnect closes the upstream's connection to the server (Shutdown).
func (u *Up) Disconnect() {
	u.gone.Store(true)
	_ = u.ln.Shutdown()
	// A listener that was in the middle of reconnecting may install a new session
	// after Shutdown looked at the old one (the client library does not
	// synchronise the two), and would then stay connected for good - and keep
	// http.Server.Close below waiting for its Accept: shut down again, in the
	// background, until serving has ended.
	go func() {
		end := time.Now().Add(5 * time.Minute)
		for time.Now().Before(end) {
			select {
			case <-u.serveDone:
				return
			case <-time.After(100 * time.Millisecond):
				_ = u.ln.Shutdown()
			}
		}
	}()
	if u.httpSrv != nil {
		_ = u.httpSrv.Close()
	}
	if u.agentRP != nil {
		ctx, cancel := context.WithTimeout(context.Background(), time.Second)
		_ = u.agentRP.Shutdown(ctx)
		cancel()
	}
	if u.agentTCP != nil {
		_ = u.agentTCP.Close()
	}
	if u.local != nil {
		u.local.Close()
	}
	if u.localTCP != nil {
		_ = u.localTCP.Close()
	}
	// DisconnectEnd bounds the time the upstream can have served: wait (briefly)
	// until serving has ended
	select {
	case <-u.serveDone:
	case <-time.After(2 * time.Second):
	}
	u.DisconnectEnd = time.Now()
}

// Listener exposes the piko listener (for go-away etc.).
func (u *Up) Listener() client.Listener { return u.ln }

// MarkGone tells the upstream its listener is being closed by the harness.
func (u *Up) MarkGone() { u.gone.Store(true) }

// ---------------------------------------------------------------------------
// clients

// HTTPResult is the outcome of one proxied HTTP request.
type HTTPResult struct {
	Status   int
	Header   http.Header
	Body     []byte
	Err      error
	Start    time.Time
	End      time.Time
	Endpoint string // stamp
	Upstream string // stamp
	Trailer  http.Header
}

var httpClient = &http.Client{
	Transport: &http.Transport{DisableKeepAlives: true, DisableCompression: true},
	Timeout:   30 * time.Second,
	CheckRedirect: func(*http.Request, []*http.Request) error {
		return http.ErrUseLastResponse
	},
}

// KeepAliveClient reuses connections: for checks that issue many small requests
// to one port (the ephemeral port range is finite).
var KeepAliveClient = &http.Client{
	Transport: &http.Transport{DisableCompression: true, MaxIdleConnsPerHost: 4, IdleConnTimeout: 5 * time.Second},
	Timeout:   30 * time.Second,
	CheckRedirect: func(*http.Request, []*http.Request) error {
		return http.ErrUseLastResponse
	},
}

// Do sends req (already addressed to a node's proxy port) and reads the response.
func Do(req *http.Request) *HTTPResult { return DoWith(httpClient, req) }

// DoWith is Do with a given client.
func DoWith(client *http.Client, req *http.Request) *HTTPResult {
	res := &HTTPResult{Start: time.Now()}
	resp, err := client.Do(req)
	if err != nil {
		res.Err, res.End = err, time.Now()
		return res
	}
	defer resp.Body.Close()
	res.Body, res.Err = io.ReadAll(resp.Body)
	res.End = time.Now()
	res.Status, res.Header, res.Trailer = resp.StatusCode, resp.Header, resp.Trailer
	res.Endpoint, res.Upstream = resp.Header.Get(HdrEndpoint), resp.Header.Get(HdrUpstream)
	return res
}

// Get issues GET / to node for endpoint using the given addressing mode.
// mode: host, hostport, header, both (header=endpoint, Host=decoy).
func Get(node *TNode, endpoint, mode, decoy string, hdr map[string]string) *HTTPResult {
	req, _ := http.NewRequest("GET", "http://"+node.ProxyAddr()+"/", nil)
	switch mode {
	case "host":
		req.Host = endpoint + ".piko.test"
	case "hostport":
		req.Host = endpoint + ".piko.test:8000"
	case "header":
		req.Header.Set("x-piko-endpoint", endpoint)
	case "both":
		req.Header.Set("x-piko-endpoint", endpoint)
		req.Host = decoy + ".piko.test"
	}
	for k, v := range hdr {
		// a value with line breaks is sent as several header lines of that name
		req.Header[http.CanonicalHeaderKey(k)] = strings.Split(v, "\n")
	}
	return Do(req)
}

// TCPResult is the outcome of one tunnelled TCP connection attempt.
type TCPResult struct {
	Err      error
	Start    time.Time
	End      time.Time
	Endpoint string
	Upstream string
	Conn     net.Conn
}

// DialTCP opens a tunnelled connection through node and reads the stamp line.
func DialTCP(node *TNode, endpoint, token string, keep bool) *TCPResult {
	res := &TCPResult{Start: time.Now()}
	pu, _ := url.Parse("http://" + node.ProxyAddr())
	d := &client.Dialer{URL: pu, Token: token}
	ctx, cancel := context.WithTimeout(context.Background(), 15*time.Second)
	defer cancel()
	c, err := d.Dial(ctx, endpoint)
	if err != nil {
		res.Err, res.End = err, time.Now()
		return res
	}
	_ = c.SetReadDeadline(time.Now().Add(15 * time.Second))
	line, err := bufio.NewReader(io.LimitReader(c, 256)).ReadString('\n')
	res.End = time.Now()
	if err != nil {
		res.Err = fmt.Errorf("read stamp: %w", err)
		c.Close()
		return res
	}
	f := strings.Fields(line)
	if len(f) == 3 && f[0] == "STAMP" {
		res.Endpoint, res.Upstream = f[1], f[2]
	} else {
		res.Err = fmt.Errorf("bad stamp line %q", line)
	}
	_ = c.SetReadDeadline(time.Time{})
	if keep {
		res.Conn = c
	} else {
		c.Close()
	}
	return res
}

// ForeignStamp reports whether an upstream id belongs to another cluster of this process.
func ForeignStamp(id string, gen int) bool {
	i := strings.LastIndex(id, "@g")
	if i < 0 {
		return false
	}
	g, err := strconv.Atoi(id[i+2:])
	return err == nil && g != gen
}

// IsGatewayRefusal reports whether a dial error is piko refusing with a gateway status.
func IsGatewayRefusal(err error) bool {
	if err == nil {
		return false
	}
	s := err.Error()
	return strings.Contains(s, "502") || strings.Contains(s, "504") || strings.Contains(s, "bad handshake") || strings.Contains(s, "Bad Gateway")
}
