package sys

import (
	"crypto/ecdsa"
	"crypto/elliptic"
	"crypto/rand"
	"crypto/rsa"
	"crypto/x509"
	"encoding/pem"
	"sync"
	"time"

	"github.com/golang-jwt/jwt/v5"
)

// Keys used by the auth checks (generated once per process).
type Keys struct {
	HMAC     []byte
	HMAC2    []byte
	RSA      *rsa.PrivateKey
	RSA2     *rsa.PrivateKey
	EC       *ecdsa.PrivateKey
	EC2      *ecdsa.PrivateKey
	RSAPub   string // PEM
	ECPub    string // PEM
	RSA2Pub  string
	EC2Pub   string
	EC384    *ecdsa.PrivateKey
	EC384Pub string
}

var (
	keysOnce sync.Once
	keys     *Keys
)

func pubPEM(pub any) string {
	b, err := x509.MarshalPKIXPublicKey(pub)
	if err != nil {
		panic(err)
	}
	return string(pem.EncodeToMemory(&pem.Block{Type: "PUBLIC KEY", Bytes: b}))
}

// TestKeys returns the process-wide key material.
func TestKeys() *Keys {
	keysOnce.Do(func() {
		k := &Keys{HMAC: []byte("hmac-secret-key-one-0123456789abcdef"), HMAC2: []byte("hmac-secret-key-two-0123456789abcdef")}
		var err error
		if k.RSA, err = rsa.GenerateKey(rand.Reader, 2048); err != nil {
			panic(err)
		}
		if k.RSA2, err = rsa.GenerateKey(rand.Reader, 2048); err != nil {
			panic(err)
		}
		if k.EC, err = ecdsa.GenerateKey(elliptic.P256(), rand.Reader); err != nil {
			panic(err)
		}
		if k.EC2, err = ecdsa.GenerateKey(elliptic.P256(), rand.Reader); err != nil {
			panic(err)
		}
		if k.EC384, err = ecdsa.GenerateKey(elliptic.P384(), rand.Reader); err != nil {
			panic(err)
		}
		k.RSAPub, k.RSA2Pub = pubPEM(&k.RSA.PublicKey), pubPEM(&k.RSA2.PublicKey)
		k.ECPub, k.EC2Pub, k.EC384Pub = pubPEM(&k.EC.PublicKey), pubPEM(&k.EC2.PublicKey), pubPEM(&k.EC384.PublicKey)
		keys = k
	})
	return keys
}

// Claims of a piko token.
type Claims struct {
	jwt.RegisteredClaims
	Piko struct {
		Endpoints []string `json:"endpoints,omitempty"`
	} `json:"piko"`
}

// MintHS signs an HS256 token with the given secret.
func MintHS(secret []byte, endpoints []string, exp time.Time) string {
	c := Claims{}
	c.Piko.Endpoints = endpoints
	if !exp.IsZero() {
		c.ExpiresAt = jwt.NewNumericDate(exp)
	}
	s, err := jwt.NewWithClaims(jwt.SigningMethodHS256, c).SignedString(secret)
	if err != nil {
		panic(err)
	}
	return s
}

// MintRS signs an RS256 token with the test RSA key (kid rsa1, as in the JWK set
// written by writeJWKS).
func MintRS(endpoints []string, exp time.Time) string {
	c := Claims{}
	c.Piko.Endpoints = endpoints
	if !exp.IsZero() {
		c.ExpiresAt = jwt.NewNumericDate(exp)
	}
	tk := jwt.NewWithClaims(jwt.SigningMethodRS256, c)
	tk.Header["kid"] = "rsa1"
	s, err := tk.SignedString(TestKeys().RSA)
	if err != nil {
		panic(err)
	}
	return s
}
