package sys

import (
	"bufio"
	"bytes"
	"context"
	"fmt"
	"io"
	"net"
	"net/http"
	"net/http/httptest"
	"net/url"
	"strings"
	"sync"
	"testing"
	"time"

	"github.com/gorilla/websocket"

	"github.com/andydunstall/piko/client"
	"github.com/andydunstall/piko/forward"
	"github.com/andydunstall/piko/pkg/log"
	pws "github.com/andydunstall/piko/pkg/websocket"
	"github.com/andydunstall/piko/server/config"

	"verif/harness/vlib"
)

var c07Sizes = []int{0, 1, 2, 125, 126, 127, 1024, 4096, 65535, 65536, 70000, 1 << 20}
var c07ReadBufs = []int{1, 2, 3, 7, 100, 125, 126, 1024, 4096, 32768, 65536, 100000}

// stream pattern: byte i of the stream is a function of i (loss, duplication and reordering all show)
func streamBytes(off, n int) []byte {
	b := make([]byte, n)
	for i := range b {
		x := off + i
		b[i] = byte(x*131 + (x>>8)*31 + (x>>16)*17)
	}
	return b
}

// readAll reads exactly total bytes from c with the given buffer schedule and
// compares them with the pattern; returns an error description or "".
func readExactly(c io.Reader, total int, bufs []int, who string) string {
	got := 0
	for i := 0; got < total; i++ {
		buf := make([]byte, bufs[i%len(bufs)])
		n, err := c.Read(buf)
		if n > 0 {
			if got+n > total {
				return fmt.Sprintf("%s received %d bytes, more than the %d written", who, got+n, total)
			}
			if !bytes.Equal(buf[:n], streamBytes(got, n)) {
				j := 0
				want := streamBytes(got, n)
				for j < n && buf[j] == want[j] {
					j++
				}
				return fmt.Sprintf("%s: byte %d of the stream differs from what was written (read of %d bytes into a %d-byte buffer)", who, got+j, n, len(buf))
			}
			got += n
		}
		if err != nil {
			return fmt.Sprintf("%s: read failed after %d of %d bytes: %v", who, got, total, err)
		}
		if n == 0 {
			return fmt.Sprintf("%s: Read returned 0 bytes and no error after %d of %d bytes", who, got, total)
		}
	}
	return ""
}

func TestC07Adapter(t *testing.T) {
	vlib.SetRule("C07", "TestC07Adapter", "a pkg/websocket.Conn pair over loopback: per direction a drawn list of write sizes from {0,1,2,125,126,127,1 KiB,4 KiB,65535,65536,70000,1 MiB} (total <= 2.5 MiB) and a drawn cycle of read-buffer sizes (1 B-100 kB), both directions concurrently; one side is optionally a raw gorilla writer producing fragmented and empty messages that Conn.Write cannot produce; then one side closes (plain close or close frame); oracle: every byte arrives exactly once, in order, unmodified; no read returns data beyond what was written or (0,nil); after draining, the close is observed as an error/EOF at the other end within the deadline; non-trivial = some read buffer is smaller than a message, or an empty message is in the stream, with data in both directions")
	upg := websocket.Upgrader{ReadBufferSize: 1024, WriteBufferSize: 1024}
	ch := make(chan *websocket.Conn, 16)
	srv := httptest.NewServer(http.HandlerFunc(func(w http.ResponseWriter, r *http.Request) {
		c, err := upg.Upgrade(w, r, nil)
		if err == nil {
			ch <- c
		}
	}))
	defer srv.Close()
	wsURL := "ws" + strings.TrimPrefix(srv.URL, "http")
	vlib.Run(t, "C07", func(c *vlib.Case) {
		cl, err := pws.Dial(context.Background(), wsURL)
		if err != nil {
			c.Harnessf("dial: %v", err)
		}
		raw := <-ch
		defer raw.Close()
		defer cl.Close()
		srvConn := pws.New(raw)
		rawWriter := c.Chance("rawFragmentedWriter", 1, 3)
		drawWrites := func(label string) ([]int, int, bool) {
			var ws []int
			total, empty := 0, false
			for i, n := 0, c.Int(label+"Writes", 0, 10); i < n; i++ {
				s := c07Sizes[c.Pick(label+"Size", len(c07Sizes))]
				if total+s > 2_500_000 {
					s = 1
				}
				ws = append(ws, s)
				total += s
				if s == 0 {
					empty = true
				}
			}
			return ws, total, empty
		}
		drawBufs := func(label string) ([]int, int) {
			var bs []int
			min := 1 << 30
			for i, n := 0, c.Int(label+"Bufs", 1, 4); i < n; i++ {
				b := c07ReadBufs[c.Pick(label+"Buf", len(c07ReadBufs))]
				bs = append(bs, b)
				if b < min {
					min = b
				}
			}
			return bs, min
		}
		c2s, c2sTotal, e1 := drawWrites("c2s")
		s2c, s2cTotal, e2 := drawWrites("s2c")
		srvBufs, srvMin := drawBufs("srv")
		cliBufs, cliMin := drawBufs("cli")
		// avoid pathological run time: 1-byte reads of megabytes
		if c2sTotal > 200_000 && srvMin < 100 {
			srvBufs, srvMin = []int{4096, 100}, 100
		}
		if s2cTotal > 200_000 && cliMin < 100 {
			cliBufs, cliMin = []int{65536, 125}, 125
		}
		maxW := func(ws []int) int {
			m := 0
			for _, w := range ws {
				if w > m {
					m = w
				}
			}
			return m
		}
		if c2sTotal > 0 && s2cTotal > 0 && (srvMin < maxW(c2s) || cliMin < maxW(s2c) || e1 || e2) {
			c.NonTrivial()
		}
		c.Stepf("client->server writes %v read with %v; server->client writes %v (raw fragmented=%v) read with %v", c2s, srvBufs, s2c, rawWriter, cliBufs)
		_ = cl.SetDeadline(time.Now().Add(Deadline()))
		_ = raw.SetReadDeadline(time.Now().Add(Deadline()))
		_ = raw.SetWriteDeadline(time.Now().Add(Deadline()))
		var wg sync.WaitGroup
		errs := make([]string, 4)
		wg.Add(4)
		go func() { // client writer
			defer wg.Done()
			off := 0
			for _, n := range c2s {
				if w, err := cl.Write(streamBytes(off, n)); err != nil || w != n {
					errs[0] = fmt.Sprintf("client write of %d bytes returned %d, %v", n, w, err)
					return
				}
				off += n
			}
		}()
		go func() { // server reader
			defer wg.Done()
			errs[1] = readExactly(srvConn, c2sTotal, srvBufs, "server end")
		}()
		go func() { // server writer
			defer wg.Done()
			off := 0
			for i, n := range s2c {
				if rawWriter {
					w, err := raw.NextWriter(websocket.BinaryMessage)
					if err != nil {
						errs[2] = fmt.Sprintf("raw writer: %v", err)
						return
					}
					// split the message into up to 3 fragments, possibly empty ones
					cut1, cut2 := n/3, n/2
					if i%2 == 0 {
						cut1 = 0
					}
					for _, part := range [][2]int{{0, cut1}, {cut1, cut2}, {cut2, n}} {
						if _, err := w.Write(streamBytes(off+part[0], part[1]-part[0])); err != nil {
							errs[2] = fmt.Sprintf("raw fragment write: %v", err)
							return
						}
					}
					if err := w.Close(); err != nil {
						errs[2] = fmt.Sprintf("raw message close: %v", err)
						return
					}
				} else if w, err := srvConn.Write(streamBytes(off, n)); err != nil || w != n {
					errs[2] = fmt.Sprintf("server write of %d bytes returned %d, %v", n, w, err)
					return
				}
				off += n
			}
		}()
		go func() { // client reader
			defer wg.Done()
			errs[3] = readExactly(cl, s2cTotal, cliBufs, "client end")
		}()
		wg.Wait()
		for _, e := range errs {
			if e != "" {
				c.Fatalf("C07: %s (c2s writes %v, s2c writes %v, raw=%v)", e, c2s, s2c, rawWriter)
			}
		}
		// close propagation
		closer := c.OneOf("closer", "client", "server", "server-close-frame")
		var reader io.Reader
		switch closer {
		case "client":
			cl.Close()
			reader = srvConn
		case "server":
			srvConn.Close()
			reader = cl
		case "server-close-frame":
			_ = raw.WriteControl(websocket.CloseMessage, websocket.FormatCloseMessage(websocket.CloseNormalClosure, ""), time.Now().Add(time.Second))
			raw.Close()
			reader = cl
		}
		buf := make([]byte, 16)
		n, err := reader.Read(buf)
		if n != 0 || err == nil {
			c.Fatalf("C07: after %s closed, the other end read %d bytes, err=%v (want end of stream)", closer, n, err)
		}
		if ne, ok := err.(net.Error); ok && ne.Timeout() {
			c.Fatalf("C07: after %s closed, the other end only timed out: close was not observed", closer)
		}
	})
}

func TestC07Tunnel(t *testing.T) {
	vlib.SetRule("C07", "TestC07Tunnel", "end to end on a real 2-node cluster: client = client.Dialer or a forward.Forwarder in front of a plain TCP connection, entering at the upstream's node or the other one, upstream = Go SDK raw TCP accept or the agent TCP proxy in front of a local TCP server; the upstream echoes; drawn write sizes (0 B-1 MiB, total <= 2 MiB, crossing the yamux window; an eighth of the cases interleave 17-40 empty writes with small ones) and read-buffer cycles, writer and reader running concurrently; then either end closes; a tenth of the cases are one-way instead: 200 KiB into an upstream that reads 4 KiB every 160 ms while the dialer closes right after its last write; oracle: the echoed stream equals the written stream byte for byte; after the client closes the upstream's connection ends and the server holds no open stream; after the upstream closes - or, behind the agent, resets - its connection the client reads end of stream; non-trivial = cross-node path or a read buffer smaller than a write, with >= 64 KiB transferred")
	vlib.Run(t, "C07", func(c *vlib.Case) {
		// a tunnel may outlive the proxy's request timeout: with a short timeout some
		// cases pause for longer than it in the middle of the stream
		proxyTimeout := c.Dur("proxyTimeout", 30*time.Second, 30*time.Second, 300*time.Millisecond)
		cl, err := StartCluster(2, false, func(i int, conf *config.Config) { conf.Proxy.Timeout = proxyTimeout })
		if err != nil {
			c.Harnessf("start cluster: %v", err)
		}
		defer cl.Stop()
		kind := c.OneOf("upstreamKind", "sdk-tcp", "agent-tcp")
		up, err := ConnectUpstream(context.Background(), cl.Nodes[0], "u0", "t1", kind, UpstreamOpts{})
		if err != nil {
			c.Harnessf("connect: %v", err)
		}
		defer up.Disconnect()
		upstreamCloses := c.Chance("upstreamClosesFirst", 1, 3)
		var ws []int
		total := 0
		for i, n := 0, c.Int("writes", 1, 8); i < n; i++ {
			s := c07Sizes[c.Pick("size", len(c07Sizes))]
			if total+s > 2_000_000 {
				s = 1
			}
			ws = append(ws, s)
			total += s
		}
		// some connections carry many empty writes over their lifetime (an application
		// flushing with nothing to send): each is an empty message in the tunnel
		if c.Chance("manyEmptyWrites", 1, 8) {
			ws, total = nil, 0
			for i, n := 0, c.Int("emptyWrites", 17, 40); i < n; i++ {
				d := []int{1, 2, 125, 126, 127}[c.Pick("between", 5)]
				ws = append(ws, 0, d)
				total += d
			}
			c.Class("many-empty-writes")
		}
		var bufs []int
		minBuf := 1 << 30
		for i, n := 0, c.Int("bufs", 1, 3); i < n; i++ {
			b := c07ReadBufs[c.Pick("buf", len(c07ReadBufs))]
			if total > 100_000 && b < 100 {
				b = 100
			}
			bufs = append(bufs, b)
			if b < minBuf {
				minBuf = b
			}
		}
		// the upstream service may also abort its connection (RST) instead of closing it:
		// behind the agent the service's socket is a real TCP connection
		// one-way transfer into a slow reader: the dialer writes everything and closes at
		// once, the upstream takes several seconds more to read what is buffered in
		// the tunnel; every byte must still arrive, followed by end of stream
		slowSink := !upstreamCloses && c.Chance("slowSink", 1, 10)
		type sinkResult struct {
			n   int
			bad int // offset of the first wrong byte, -1 if none
			err error
		}
		sinkDone := make(chan sinkResult, 1)
		if slowSink {
			total = 200 << 10
			ws = nil
			for left := total; left > 0; {
				n := c07Sizes[c.Pick("sinkSize", len(c07Sizes))]
				if n == 0 || n > left {
					n = left
				}
				ws = append(ws, n)
				left -= n
			}
			up.TCPHandler = func(conn net.Conn) {
				_, _ = fmt.Fprintf(conn, "STAMP %s %s\n", up.Endpoint, up.ID)
				res := sinkResult{bad: -1}
				buf := make([]byte, 4096)
				for {
					n, err := conn.Read(buf)
					want := streamBytes(res.n, n)
					for i := 0; i < n && res.bad < 0; i++ {
						if buf[i] != want[i] {
							res.bad = res.n + i
						}
					}
					res.n += n
					if err != nil {
						res.err = err
						break
					}
					time.Sleep(160 * time.Millisecond)
				}
				sinkDone <- res
			}
			c.Class("slow-sink-after-dialer-close")
		}
		reset := upstreamCloses && kind == "agent-tcp" && c.Bool("upstreamResets")
		resetGo := make(chan struct{})
		if upstreamCloses {
			// echo exactly `total` bytes, then close from the upstream side
			up.TCPHandler = func(conn net.Conn) {
				_, _ = fmt.Fprintf(conn, "STAMP %s %s\n", up.Endpoint, up.ID)
				_, _ = io.CopyN(conn, conn, int64(total))
				if reset {
					// only once the client has everything (a reset may destroy data in flight)
					select {
					case <-resetGo:
					case <-time.After(3 * Deadline()):
					}
					if tc, ok := conn.(*net.TCPConn); ok {
						_ = tc.SetLinger(0)
					}
				}
			}
		}
		if reset {
			c.Class("upstream-service-resets")
		}
		entry := cl.Nodes[c.Pick("entry", 2)]
		if !WaitRoutable(cl.Nodes[1], cl.Nodes[0], "t1", Deadline()) {
			Missf(c, "C07: endpoint did not propagate")
		}
		// a handshake that fails after the proxy has picked (and opened a connection
		// to) an upstream: the refusal is the whole answer for the client, and the leg
		// towards the upstream must be released just as after a completed tunnel
		if !slowSink && !reset && c.Chance("failedHandshakeFirst", 1, 5) {
			how := c.OneOf("badHandshake", "version-8", "no-key", "no-upgrade-header", "post")
			c.Class("failed-handshake-" + how)
			c.NonTrivial()
			method := "GET"
			hdr := "Connection: Upgrade\r\nUpgrade: websocket\r\nSec-WebSocket-Version: 13\r\nSec-WebSocket-Key: dGhlIHNhbXBsZSBub25jZQ==\r\n"
			switch how {
			case "version-8":
				hdr = "Connection: Upgrade\r\nUpgrade: websocket\r\nSec-WebSocket-Version: 8\r\nSec-WebSocket-Key: dGhlIHNhbXBsZSBub25jZQ==\r\n"
			case "no-key":
				hdr = "Connection: Upgrade\r\nUpgrade: websocket\r\nSec-WebSocket-Version: 13\r\n"
			case "no-upgrade-header":
				hdr = ""
			case "post":
				method = "POST"
				hdr += "Content-Length: 0\r\n"
			}
			c.Stepf("failed handshake (%s) at %s before the real tunnel", how, entry.ID)
			raw, err := net.DialTimeout("tcp", entry.ProxyAddr(), Deadline())
			if err != nil {
				c.Harnessf("dial proxy: %v", err)
			}
			_ = raw.SetDeadline(time.Now().Add(Deadline()))
			_, _ = fmt.Fprintf(raw, "%s /_piko/v1/tcp/t1 HTTP/1.1\r\nHost: %s\r\n%s\r\n", method, entry.ProxyAddr(), hdr)
			resp, err := http.ReadResponse(bufio.NewReader(raw), nil)
			if err != nil {
				raw.Close()
				Missf(c, "C07: no answer to a failing tunnel handshake (%s): %v", how, err)
			}
			status := resp.StatusCode
			resp.Body.Close()
			raw.Close()
			if status == http.StatusSwitchingProtocols {
				c.Fatalf("C07: a handshake that is not a valid WebSocket upgrade (%s) was answered 101", how)
			}
			if !Eventually(Deadline(), func() bool {
				return up.TCPClosed.Load() == up.Served.Load() && cl.Nodes[0].Srv.VerifUpstream().VerifOpenStreams() == 0
			}) {
				Missf(c, "C07: a tunnel handshake failed (%s, answered %d at %s) but the leg towards the upstream was not released: upstream accepted %d connections, %d ended, server holds %d open streams", how, status, entry.ID, up.Served.Load(), up.TCPClosed.Load(), cl.Nodes[0].Srv.VerifUpstream().VerifOpenStreams())
			}
		}
		via := c.OneOf("client", "dialer", "forwarder")
		c.Header["upstream"], c.Header["entry"], c.Header["client"], c.Header["bytes"], c.Header["proxy_timeout_ms"] = kind, entry.ID, via, total, proxyTimeout.Milliseconds()
		if proxyTimeout < time.Second {
			c.Class("tunnel-outlives-proxy-timeout")
		}
		var conn net.Conn
		pu, _ := url.Parse("http://" + entry.ProxyAddr())
		if via == "dialer" {
			ctx, cancel := context.WithTimeout(context.Background(), Deadline())
			conn, err = (&client.Dialer{URL: pu}).Dial(ctx, "t1")
			cancel()
			if err != nil && IsGatewayRefusal(err) && entry != cl.Nodes[0] {
				// a starved machine can make the entry node suspect its peer for a moment: confirm
				c.Class("timing-retry")
				WaitRoutable(entry, cl.Nodes[0], "t1", Deadline())
				ctx, cancel := context.WithTimeout(context.Background(), Deadline())
				conn, err = (&client.Dialer{URL: pu}).Dial(ctx, "t1")
				cancel()
			}
			if err != nil {
				c.Fatalf("C07: dial through %s failed: %v", entry.ID, err)
			}
		} else {
			ln, err := net.Listen("tcp", "127.0.0.1:0")
			if err != nil {
				c.Harnessf("listen: %v", err)
			}
			f := forward.NewForwarder("t1", &client.Dialer{URL: pu}, log.NewNopLogger())
			go func() { _ = f.Forward(ln) }()
			defer f.Close()
			conn, err = net.Dial("tcp", ln.Addr().String())
			if err != nil {
				c.Harnessf("dial forwarder: %v", err)
			}
		}
		defer conn.Close()
		_ = conn.SetDeadline(time.Now().Add(2 * Deadline()))
		// stamp line first
		line := make([]byte, 0, 64)
		one := make([]byte, 1)
		for len(line) < 64 {
			if _, err := io.ReadFull(conn, one); err != nil {
				c.Fatalf("C07: reading the upstream's greeting through the tunnel failed: %v", err)
			}
			if one[0] == '\n' {
				break
			}
			line = append(line, one[0])
		}
		if string(line) != "STAMP t1 "+up.ID {
			c.Fatalf("C07: greeting through the tunnel is %q", line)
		}
		if (entry != cl.Nodes[0] || minBuf < 65535) && total >= 65536 {
			c.NonTrivial()
		}
		if slowSink {
			c.NonTrivial()
			c.Stepf("one-way: %d bytes in %d writes via %s entering %s, upstream %s reads 4 KiB every 160 ms; the client closes right after its last write", total, len(ws), via, entry.ID, kind)
			off := 0
			for _, n := range ws {
				if w, err := conn.Write(streamBytes(off, n)); err != nil || w != n {
					c.Fatalf("C07: write of %d bytes returned %d, %v (one-way transfer into a slow reader)", n, w, err)
				}
				off += n
			}
			conn.Close()
			select {
			case res := <-sinkDone:
				if res.n != total || res.bad >= 0 || res.err != io.EOF {
					c.Fatalf("C07: the dialer wrote %d bytes and closed; the slow reader at the upstream received %d bytes (first wrong byte at %d) and then %v instead of all bytes followed by end of stream (via %s entering %s, upstream %s)", total, res.n, res.bad, res.err, via, entry.ID, kind)
				}
			case <-time.After(3 * Deadline()):
				Missf(c, "C07: the slow reader at the upstream neither finished nor failed within %v", 3*Deadline())
			}
			if !Eventually(Deadline(), func() bool { return cl.Nodes[0].Srv.VerifUpstream().VerifOpenStreams() == 0 }) {
				Missf(c, "C07: after both ends finished, the server still holds %d open streams to the upstream", cl.Nodes[0].Srv.VerifUpstream().VerifOpenStreams())
			}
			return
		}
		c.Stepf("writes %v read with %v via %s entering %s, upstream %s, upstream closes first=%v", ws, bufs, via, entry.ID, kind, upstreamCloses)
		var wg sync.WaitGroup
		var werr, rerr string
		wg.Add(2)
		go func() {
			defer wg.Done()
			off := 0
			for i, n := range ws {
				if i == len(ws)/2 && proxyTimeout < time.Second {
					time.Sleep(proxyTimeout + 400*time.Millisecond) // outlive the request timeout mid-stream
				}
				if w, err := conn.Write(streamBytes(off, n)); err != nil || w != n {
					if upstreamCloses && off == total && n == 0 {
						// everything has been written and echoed, so the upstream has closed
						// (or is closing) its end: an empty write may now fail
						return
					}
					werr = fmt.Sprintf("write of %d bytes returned %d, %v", n, w, err)
					return
				}
				off += n
			}
		}()
		go func() {
			defer wg.Done()
			rerr = readExactly(conn, total, bufs, "client end (echo)")
		}()
		wg.Wait()
		if werr != "" || rerr != "" {
			c.Fatalf("C07: %s %s (writes %v, read buffers %v, via %s entering %s, upstream %s)", werr, rerr, ws, bufs, via, entry.ID, kind)
		}
		closedBefore := up.TCPClosed.Load()
		if upstreamCloses {
			// the upstream has closed (or reset) after echoing everything: the client must see end of stream
			close(resetGo)
			n, err := conn.Read(make([]byte, 16))
			if n != 0 || err == nil {
				c.Fatalf("C07: the upstream closed its end but the client read %d bytes, err=%v", n, err)
			}
			if ne, ok := err.(net.Error); ok && ne.Timeout() {
				c.Fatalf("C07: the upstream closed its end but the client only timed out (close not propagated; via %s entering %s, upstream %s)", via, entry.ID, kind)
			}
		} else {
			conn.Close()
			if !Eventually(Deadline(), func() bool { return up.TCPClosed.Load() > closedBefore-0 && up.TCPClosed.Load() >= 1 }) {
				Missf(c, "C07: the client closed the tunnel but the upstream's connection never ended (via %s entering %s, upstream %s)", via, entry.ID, kind)
			}
		}
		if !Eventually(Deadline(), func() bool { return cl.Nodes[0].Srv.VerifUpstream().VerifOpenStreams() == 0 }) {
			Missf(c, "C07: after both ends finished, the server still holds %d open streams to the upstream", cl.Nodes[0].Srv.VerifUpstream().VerifOpenStreams())
		}
	})
}
