package sys

import (
	"context"
	"fmt"
	"io"
	"net/http"
	"sync"
	"sync/atomic"
	"testing"
	"time"

	"verif/harness/vlib"
)

// C20 (SYS, built with -race): generated churn against a real cluster.
func TestC20Churn(t *testing.T) {
	vlib.SetRule("C20", "TestC20Churn", "a real 3-node cluster built with the race detector under generated churn: 120-160 distinct endpoints are connected and dropped by 4-8 workers (so the production compaction threshold of 100 deletion markers fires), requests and TCP dials run concurrently from every node, status and metrics routes are read, and one node leaves gracefully in the middle; oracle: no race report, no panic, every request completes (no hang), and when activity stops every surviving node's registry, routing table and published gossip state agree and advertise nothing; every run is non-trivial")
	vlib.Run(t, "C20", func(c *vlib.Case) {
		cl, err := StartCluster(3, false, nil)
		if err != nil {
			c.Harnessf("start cluster: %v", err)
		}
		defer cl.Stop()
		if !cl.WaitMembership(Deadline()) {
			Missf(c, "C20: cluster did not form")
		}
		c.NonTrivial()
		workers := c.Int("workers", 4, 8)
		total := c.Int("endpoints", 120, 160)
		leaver := c.Pick("leaver", 3)
		leaveAfter := c.Int("leaveAfterEndpoints", 20, 100)
		c.Stepf("workers=%d endpoints=%d node n%d leaves after %d endpoints", workers, total, leaver, leaveAfter)
		var next atomic.Int64
		var failure atomic.Value
		var left, leaverDown atomic.Bool
		up := func(n *TNode) bool { return !(n.Idx == leaver && leaverDown.Load()) }
		var wg sync.WaitGroup
		stop := make(chan struct{})
		// readers
		for r := 0; r < 3; r++ {
			wg.Add(1)
			go func(r int) {
				defer wg.Done()
				for i := 0; ; i++ {
					select {
					case <-stop:
						return
					default:
					}
					n := cl.Nodes[(r+i)%3]
					if !up(n) {
						continue
					}
					for _, p := range []string{"/status/cluster/nodes", "/status/upstream/endpoints", "/status/gossip/nodes", "/metrics"} {
						resp, err := httpClient.Get("http://" + n.AdminAddr() + p)
						if err == nil {
							_, _ = io.Copy(io.Discard, resp.Body)
							resp.Body.Close()
						}
					}
					time.Sleep(5 * time.Millisecond)
				}
			}(r)
		}
		for w := 0; w < workers; w++ {
			wg.Add(1)
			go func(w int) {
				defer wg.Done()
				for {
					i := int(next.Add(1))
					if i > total {
						return
					}
					if i == leaveAfter && !left.Swap(true) {
						leaverDown.Store(true)
						done := make(chan struct{})
						go func() { cl.Nodes[leaver].Srv.Shutdown(); close(done) }()
						select {
						case <-done:
						case <-time.After(Deadline() + 15*time.Second):
							failure.Store(fmt.Sprintf("shutdown of n%d did not return (deadlock?)", leaver))
							return
						}
					}
					node := cl.Nodes[(w+i)%3]
					if !up(node) {
						node = cl.Nodes[(leaver+1)%3]
					}
					ep := fmt.Sprintf("ep%d", i)
					ctx, cancel := context.WithTimeout(context.Background(), Deadline())
					u, err := ConnectUpstream(ctx, node, fmt.Sprintf("u%d", i), ep, "sdk-http", UpstreamOpts{})
					cancel()
					if err != nil {
						if up(node) {
							failure.Store(fmt.Sprintf("upstream for %s could not connect to %s: %v", ep, node.ID, err))
							return
						}
						continue
					}
					for q := 0; q < 2; q++ {
						entry := cl.Nodes[(i+q)%3]
						if !up(entry) {
							continue
						}
						res := Get(entry, ep, "host", "", nil)
						if res.Err == nil && res.Status != 200 && res.Status != 502 && res.Status != 504 {
							failure.Store(fmt.Sprintf("request for %s via %s answered %d", ep, entry.ID, res.Status))
						}
						if res.Err == nil && res.Status == 200 && res.Endpoint != ep {
							failure.Store(fmt.Sprintf("request for %s served by an upstream of %s", ep, res.Endpoint))
						}
						if res.Err != nil && up(entry) && res.End.Sub(res.Start) > 25*time.Second {
							failure.Store(fmt.Sprintf("request for %s via %s hung: %v", ep, entry.ID, res.Err))
						}
					}
					u.Disconnect()
				}
			}(w)
		}
		fin := make(chan struct{})
		go func() {
			// workers finish first; then stop the readers
			for int(next.Load()) <= total+workers-1 && failure.Load() == nil {
				time.Sleep(20 * time.Millisecond)
				if int(next.Load()) > total {
					break
				}
			}
			time.Sleep(200 * time.Millisecond)
			close(stop)
			wg.Wait()
			close(fin)
		}()
		select {
		case <-fin:
		case <-time.After(10 * time.Minute):
			c.Fatalf("C20: churn did not finish within 10 minutes (deadlock?)")
		}
		if leaverDown.Load() {
			cl.Nodes[leaver].Up = false
		}
		if f := failure.Load(); f != nil {
			c.Fatalf("C20: %v", f)
		}
		// quiescence: nothing is registered or advertised any more, anywhere
		ok := Eventually(2*Deadline(), func() bool {
			for _, n := range cl.Live() {
				if len(n.Srv.ClusterState().LocalNode().Endpoints) != 0 || n.Srv.VerifUpstream().VerifOpenSessions() != 0 {
					return false
				}
				reg, err := statusEndpoints(n)
				if err != nil || len(reg) != 0 {
					return false
				}
				for _, o := range cl.Live() {
					if o != n {
						if rn, known := n.Srv.ClusterState().Node(o.ID); known && len(rn.Endpoints) != 0 {
							return false
						}
					}
				}
				if ns, known := n.Srv.VerifGossip().NodeState(n.ID); known {
					for _, e := range ns.Entries {
						if len(e.Key) > 9 && e.Key[:9] == "endpoint:" && !e.Deleted {
							return false
						}
					}
				}
			}
			return true
		})
		if !ok {
			var desc []string
			for _, n := range cl.Live() {
				desc = append(desc, fmt.Sprintf("%s: local=%v sessions=%d", n.ID, n.Srv.ClusterState().LocalNode().Endpoints, n.Srv.VerifUpstream().VerifOpenSessions()))
				for _, o := range cl.Live() {
					if rn, known := n.Srv.ClusterState().Node(o.ID); known && o != n {
						desc = append(desc, fmt.Sprintf("  sees %s: %v", o.ID, rn.Endpoints))
					}
				}
			}
			c.Fatalf("C20: after all upstreams disconnected the registries, routing tables and gossip states do not become empty and consistent: %v", desc)
		}
		_ = http.StatusOK
	})
}
